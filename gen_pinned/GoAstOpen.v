(* GENERATED from /repo by harness/cmd/gen (goast.go) — do not edit.
   The bodies of the listed functions as terms of the deep embedding of model/GoLang.v. *)
From Coq Require Import List String ZArith.
From SP Require Import GoLang.
Import ListNotations.
Local Open Scope string_scope.
Local Open Scope Z_scope.

(* saltpack.assertEndOfStream, common.go *)
Definition f_saltpack_assertEndOfStream : gfunc := mkFunc "saltpack.assertEndOfStream" ["stream"] []
     [SVar "i" "interface{}";
      SAssign ["_"; "err"] [(ECall "msgpackStream.Read" [(EVar "stream"); (EAddr "i")])];
      SIf [] (EBin OEq "bool" (EVar "err") ENil)
      [SAssign ["err"] [(EErrVar "ErrTrailingGarbage")]]
      [];
      SReturn [(EVar "err")]].

(* saltpack.decryptStream_readHeader, decrypt.go *)
Definition f_saltpack_decryptStream_readHeader : gfunc := mkFunc "saltpack.decryptStream_readHeader" ["ds"; "_"] []
     [SAssign ["headerBytes"] [(ELit "[]byte" [])];
      SAssign ["_"; "err"] [(ECall "msgpackStream.Read" [(ESel (EVar "ds") "mps"); (EAddr "headerBytes")])];
      SIf [] (EBin ONe "bool" (EVar "err") ENil)
      [SReturn [(EErrVar "ErrFailedToReadHeaderBytes")]]
      [];
      SAssignL [(LField (LVar "ds") "headerHash")] [(ECall "sha512.Sum512" [(EVar "headerBytes")])];
      SVar "header" "EncryptionHeader";
      SAssign ["err"] [(ECall "decodeFromBytes" [(EAddr "header"); (EVar "headerBytes")])];
      SIf [] (EBin ONe "bool" (EVar "err") ENil)
      [SReturn [(EVar "err")]]
      [];
      SAssign ["err"] [(ECall "decryptStream.processHeader" [(EVar "ds"); (EAddr "header")])];
      SIf [] (EBin ONe "bool" (EVar "err") ENil)
      [SReturn [(EVar "err")]]
      [];
      SReturn [ENil]].

(* saltpack.readEncryptionBlock, decrypt.go *)
Definition f_saltpack_readEncryptionBlock : gfunc := mkFunc "saltpack.readEncryptionBlock" ["version"; "mps"] [("ciphertext", "[]byte"); ("authenticators", "[]payloadAuthenticator"); ("isFinal", "bool"); ("seqno", "uint64"); ("err", "error")]
     [SSwitch [] (Some (ESel (EVar "version") "Major"))
      [([(EInt (1))], [SVar "ebV1" "encryptionBlockV1";
      SAssign ["seqno"; "err"] [(ECall "msgpackStream.Read" [(EVar "mps"); (EAddr "ebV1")])];
      SIf [] (EBin ONe "bool" (EVar "err") ENil)
      [SReturn [ENil; ENil; (EBool false); (EInt (0)); (EVar "err")]]
      [];
      SReturn [(ESel (EVar "ebV1") "PayloadCiphertext"); (ESel (EVar "ebV1") "HashAuthenticators"); (EBin OEq "bool" (ELen (ESel (EVar "ebV1") "PayloadCiphertext")) (EInt (16))); (EVar "seqno"); ENil]]);
       ([(EInt (2))], [SVar "ebV2" "encryptionBlockV2";
      SAssign ["seqno"; "err"] [(ECall "msgpackStream.Read" [(EVar "mps"); (EAddr "ebV2")])];
      SIf [] (EBin ONe "bool" (EVar "err") ENil)
      [SReturn [ENil; ENil; (EBool false); (EInt (0)); (EVar "err")]]
      [];
      SReturn [(ESel (EVar "ebV2") "PayloadCiphertext"); (ESel (EVar "ebV2") "HashAuthenticators"); (ESel (EVar "ebV2") "IsFinal"); (EVar "seqno"); ENil]])]
      (Some [SPanic (EStr "panic")])].

(* saltpack.NewDecryptStream, decrypt.go *)
Definition f_saltpack_NewDecryptStream : gfunc := mkFunc "saltpack.NewDecryptStream" ["versionValidator"; "r"; "keyring"] [("mki", "MessageKeyInfo"); ("plaintext", "Reader"); ("err", "error")]
     [SAssign ["ds"] [(ELit "decryptStream" [("versionValidator", (EVar "versionValidator")); ("ring", (EVar "keyring")); ("mps", (ECall "newMsgpackStream" [(EVar "r")])); ("version", (ELit "Version" [("Major", (EInt (0))); ("Minor", (EInt (0)))])); ("payloadKey", ENil); ("senderKey", ENil); ("headerHash", (ECall "make" [(EInt (64))])); ("macKey", (ECall "make" [(EInt (32))])); ("position", (EInt (0))); ("mki", (ELit "MessageKeyInfo" [("SenderKey", ENil); ("SenderIsAnon", (EBool false)); ("ReceiverKey", ENil); ("ReceiverIsAnon", (EBool false)); ("NamedReceivers", ENil); ("NumAnonReceivers", (EInt (0)))]))])];
      SAssign ["err"] [(ECall "decryptStream.readHeader" [(EVar "ds"); (EVar "r")])];
      SIf [] (EBin ONe "bool" (EVar "err") ENil)
      [SAssign ["a'0"] [(ESel (EVar "ds") "mki")];
      SReturn [(EAddr "a'0"); ENil; (EVar "err")]]
      [];
      SAssign ["a'0"] [(ESel (EVar "ds") "mki")];
      SReturn [(EAddr "a'0"); (ECall "newChunkReader" [(EVar "ds")]); ENil]].

(* saltpack.Open, decrypt.go *)
Definition f_saltpack_Open : gfunc := mkFunc "saltpack.Open" ["versionValidator"; "ciphertext"; "keyring"] [("i", "MessageKeyInfo"); ("plaintext", "[]byte"); ("err", "error")]
     [SAssign ["buf"] [(ECall "bytes.NewBuffer" [(EVar "ciphertext")])];
      SAssign ["mki"; "plaintextStream"; "err"] [(ECall "NewDecryptStream" [(EVar "versionValidator"); (EVar "buf"); (EVar "keyring")])];
      SIf [] (EBin ONe "bool" (EVar "err") ENil)
      [SReturn [(EVar "mki"); ENil; (EVar "err")]]
      [];
      SAssign ["ret"; "err"] [(ECall "io.ReadAll" [(EVar "plaintextStream")])];
      SIf [] (EBin ONe "bool" (EVar "err") ENil)
      [SReturn [ENil; ENil; (EVar "err")]]
      [];
      SReturn [(EVar "mki"); (EVar "ret"); (EVar "err")]].

(* saltpack.computeMACKeySender, encrypt.go *)
Definition f_saltpack_computeMACKeySender : gfunc := mkFunc "saltpack.computeMACKeySender" ["version"; "index"; "secret"; "eSecret"; "public"; "headerHash"] []
     [SSwitch [] (Some (EVar "version"))
      [([(ECall "Version1" [])], [SAssign ["nonce"] [(ECall "nonceForMACKeyBoxV1" [(EVar "headerHash")])];
      SReturn [(ECall "computeMACKeySingle" [(EVar "secret"); (EVar "public"); (EVar "nonce")])]]);
       ([(ECall "Version2" [])], [SAssign ["nonce"] [(ECall "nonceForMACKeyBoxV2" [(EVar "headerHash"); (EBool false); (EVar "index")])];
      SAssign ["mac"] [(ECall "computeMACKeySingle" [(EVar "secret"); (EVar "public"); (EVar "nonce")])];
      SAssign ["eNonce"] [(ECall "nonceForMACKeyBoxV2" [(EVar "headerHash"); (EBool true); (EVar "index")])];
      SAssign ["eMAC"] [(ECall "computeMACKeySingle" [(EVar "eSecret"); (EVar "public"); (EVar "eNonce")])];
      SReturn [(ECall "sum512Truncate256" [(ECall "append..." [(ESlice (EVar "mac") None None); (ESlice (EVar "eMAC") None None)])])]])]
      (Some [SPanic (EStr "panic")])].

(* saltpack.computeMACKeysSender, encrypt.go *)
Definition f_saltpack_computeMACKeysSender : gfunc := mkFunc "saltpack.computeMACKeysSender" ["version"; "sender"; "ephemeralKey"; "receivers"; "headerHash"] []
     [SVar "macKeys" "[]macKey";
      SRange "i" "receiver" (EVar "receivers")
      [SAssign ["macKey"] [(ECall "computeMACKeySender" [(EVar "version"); (EConv "uint64" (EVar "i")); (EVar "sender"); (EVar "ephemeralKey"); (EVar "receiver"); (EVar "headerHash")])];
      SAssign ["macKeys"] [(ECall "append" [(EVar "macKeys"); (EVar "macKey")])]];
      SReturn [(EVar "macKeys")]].

(* saltpack.signcryptOpenStream_readHeader, signcrypt_open.go *)
Definition f_saltpack_signcryptOpenStream_readHeader : gfunc := mkFunc "saltpack.signcryptOpenStream_readHeader" ["sos"] []
     [SAssign ["headerBytes"] [(ELit "[]byte" [])];
      SAssign ["_"; "err"] [(ECall "msgpackStream.Read" [(ESel (EVar "sos") "mps"); (EAddr "headerBytes")])];
      SIf [] (EBin ONe "bool" (EVar "err") ENil)
      [SReturn [(EErrVar "ErrFailedToReadHeaderBytes")]]
      [];
      SAssignL [(LField (LVar "sos") "headerHash")] [(ECall "sha512.Sum512" [(EVar "headerBytes")])];
      SVar "header" "SigncryptionHeader";
      SAssign ["err"] [(ECall "decodeFromBytes" [(EAddr "header"); (EVar "headerBytes")])];
      SIf [] (EBin ONe "bool" (EVar "err") ENil)
      [SReturn [(EVar "err")]]
      [];
      SAssign ["err"] [(ECall "signcryptOpenStream.processHeader" [(EVar "sos"); (EAddr "header")])];
      SIf [] (EBin ONe "bool" (EVar "err") ENil)
      [SReturn [(EVar "err")]]
      [];
      SReturn [ENil]].

(* saltpack.NewSigncryptOpenStream, signcrypt_open.go *)
Definition f_saltpack_NewSigncryptOpenStream : gfunc := mkFunc "saltpack.NewSigncryptOpenStream" ["r"; "keyring"; "resolver"] [("senderPub", "SigningPublicKey"); ("plaintext", "Reader"); ("err", "error")]
     [SAssign ["sos"] [(ELit "signcryptOpenStream" [("mps", (ECall "newMsgpackStream" [(EVar "r")])); ("keyring", (EVar "keyring")); ("resolver", (EVar "resolver")); ("payloadKey", ENil); ("signingPublicKey", ENil); ("senderAnonymous", (EBool false)); ("headerHash", (ECall "make" [(EInt (64))]))])];
      SAssign ["err"] [(ECall "signcryptOpenStream.readHeader" [(EVar "sos")])];
      SIf [] (EBin ONe "bool" (EVar "err") ENil)
      [SReturn [ENil; ENil; (EVar "err")]]
      [];
      SReturn [(ESel (EVar "sos") "signingPublicKey"); (ECall "newChunkReader" [(EVar "sos")]); ENil]].

(* saltpack.SigncryptOpen, signcrypt_open.go *)
Definition f_saltpack_SigncryptOpen : gfunc := mkFunc "saltpack.SigncryptOpen" ["ciphertext"; "keyring"; "resolver"] [("senderPub", "SigningPublicKey"); ("plaintext", "[]byte"); ("err", "error")]
     [SAssign ["buf"] [(ECall "bytes.NewBuffer" [(EVar "ciphertext")])];
      SAssign ["senderPub"; "plaintextStream"; "err"] [(ECall "NewSigncryptOpenStream" [(EVar "buf"); (EVar "keyring"); (EVar "resolver")])];
      SIf [] (EBin ONe "bool" (EVar "err") ENil)
      [SReturn [(EVar "senderPub"); ENil; (EVar "err")]]
      [];
      SAssign ["ret"; "err"] [(ECall "io.ReadAll" [(EVar "plaintextStream")])];
      SIf [] (EBin ONe "bool" (EVar "err") ENil)
      [SReturn [ENil; ENil; (EVar "err")]]
      [];
      SReturn [(EVar "senderPub"); (EVar "ret"); (EVar "err")]].

(* saltpack.NewVerifyStream, verify.go *)
Definition f_saltpack_NewVerifyStream : gfunc := mkFunc "saltpack.NewVerifyStream" ["versionValidator"; "r"; "keyring"] [("skey", "SigningPublicKey"); ("vs", "Reader"); ("err", "error")]
     [SAssign ["s"; "err"] [(ECall "newVerifyStream" [(EVar "versionValidator"); (EVar "r"); (EInt (1))])];
      SIf [] (EBin ONe "bool" (EVar "err") ENil)
      [SReturn [ENil; ENil; (EVar "err")]]
      [];
      SAssign ["skey"] [(ECall "SigKeyring.LookupSigningPublicKey" [(EVar "keyring"); (ESel (ESel (EVar "s") "header") "SenderPublic")])];
      SIf [] (EBin OEq "bool" (EVar "skey") ENil)
      [SReturn [ENil; ENil; (ELit "ErrNoSenderKey" [("Sender", (ESel (ESel (EVar "s") "header") "SenderPublic"))])]]
      [];
      SAssignL [(LField (LVar "s") "publicKey")] [(EVar "skey")];
      SReturn [(EVar "skey"); (ECall "newChunkReader" [(EVar "s")]); ENil]].

(* saltpack.Verify, verify.go *)
Definition f_saltpack_Verify : gfunc := mkFunc "saltpack.Verify" ["versionValidator"; "signedMsg"; "keyring"] [("skey", "SigningPublicKey"); ("verifiedMsg", "[]byte"); ("err", "error")]
     [SAssign ["skey"; "stream"; "err"] [(ECall "NewVerifyStream" [(EVar "versionValidator"); (ECall "bytes.NewReader" [(EVar "signedMsg")]); (EVar "keyring")])];
      SIf [] (EBin ONe "bool" (EVar "err") ENil)
      [SReturn [ENil; ENil; (EVar "err")]]
      [];
      SAssign ["verifiedMsg"; "err"] [(ECall "io.ReadAll" [(EVar "stream")])];
      SIf [] (EBin ONe "bool" (EVar "err") ENil)
      [SReturn [ENil; ENil; (EVar "err")]]
      [];
      SReturn [(EVar "skey"); (EVar "verifiedMsg"); ENil]].

(* saltpack.VerifyDetachedReader, verify.go *)
Definition f_saltpack_VerifyDetachedReader : gfunc := mkFunc "saltpack.VerifyDetachedReader" ["versionValidator"; "message"; "signature"; "keyring"] [("skey", "SigningPublicKey"); ("err", "error")]
     [SAssign ["inputBuffer"] [(ECall "bytes.NewBuffer" [(EVar "signature")])];
      SAssign ["s"; "err"] [(ECall "newVerifyStream" [(EVar "versionValidator"); (EVar "inputBuffer"); (EInt (2))])];
      SIf [] (EBin ONe "bool" (EVar "err") ENil)
      [SReturn [ENil; (EVar "err")]]
      [];
      SVar "naclSignature" "[]byte";
      SAssign ["_"; "err"] [(ECall "msgpackStream.Read" [(ESel (EVar "s") "mps"); (EAddr "naclSignature")])];
      SIf [] (EBin ONe "bool" (EVar "err") ENil)
      [SReturn [ENil; (EVar "err")]]
      [];
      SAssign ["skey"] [(ECall "SigKeyring.LookupSigningPublicKey" [(EVar "keyring"); (ESel (ESel (EVar "s") "header") "SenderPublic")])];
      SIf [] (EBin OEq "bool" (EVar "skey") ENil)
      [SReturn [ENil; (ELit "ErrNoSenderKey" [("Sender", (ESel (ESel (EVar "s") "header") "SenderPublic"))])]]
      [];
      SAssign ["hasher"] [(ECall "sha512.New" [])];
      SAssign ["_"; "err"] [(ECall "Hash.Write" [(EVar "hasher"); (ESlice (ESel (EVar "s") "headerHash") None None)])];
      SIf [] (EBin ONe "bool" (EVar "err") ENil)
      [SReturn [ENil; (EVar "err")]]
      [];
      SIf [SAssign ["_"; "err"] [(ECall "io.Copy" [(EVar "hasher"); (EVar "message")])]] (EBin ONe "bool" (EVar "err") ENil)
      [SReturn [ENil; (EVar "err")]]
      [];
      SIf [SAssign ["err"] [(ECall "SigningPublicKey.Verify" [(EVar "skey"); (ECall "detachedSignatureInputFromHash" [(ECall "Hash.Sum" [(EVar "hasher"); ENil])]); (EVar "naclSignature")])]] (EBin ONe "bool" (EVar "err") ENil)
      [SReturn [ENil; (EVar "err")]]
      [];
      SReturn [(EVar "skey"); ENil]].

(* saltpack.VerifyDetached, verify.go *)
Definition f_saltpack_VerifyDetached : gfunc := mkFunc "saltpack.VerifyDetached" ["versionValidator"; "message"; "signature"; "keyring"] [("skey", "SigningPublicKey"); ("err", "error")]
     [SAssign ["r'0"; "r'1"] [(ECall "VerifyDetachedReader" [(EVar "versionValidator"); (ECall "bytes.NewReader" [(EVar "message")]); (EVar "signature"); (EVar "keyring")])];
      SReturn [(EVar "r'0"); (EVar "r'1")]].

(* saltpack.newVerifyStream, verify_stream.go *)
Definition f_saltpack_newVerifyStream : gfunc := mkFunc "saltpack.newVerifyStream" ["versionValidator"; "r"; "msgType"] []
     [SAssign ["s"] [(ELit "verifyStream" [("mps", (ECall "newMsgpackStream" [(EVar "r")])); ("header", ENil); ("headerHash", (ECall "make" [(EInt (64))])); ("publicKey", ENil)])];
      SAssign ["err"] [(ECall "verifyStream.readHeader" [(EVar "s"); (EVar "versionValidator"); (EVar "msgType")])];
      SIf [] (EBin ONe "bool" (EVar "err") ENil)
      [SReturn [ENil; (EVar "err")]]
      [];
      SReturn [(EVar "s"); ENil]].

(* saltpack.readSignatureBlock, verify_stream.go *)
Definition f_saltpack_readSignatureBlock : gfunc := mkFunc "saltpack.readSignatureBlock" ["version"; "mps"] [("signature", "[]byte"); ("payloadChunk", "[]byte"); ("isFinal", "bool"); ("seqno", "uint64"); ("err", "error")]
     [SSwitch [] (Some (ESel (EVar "version") "Major"))
      [([(EInt (1))], [SVar "sbV1" "signatureBlockV1";
      SAssign ["seqno"; "err"] [(ECall "msgpackStream.Read" [(EVar "mps"); (EAddr "sbV1")])];
      SIf [] (EBin ONe "bool" (EVar "err") ENil)
      [SReturn [ENil; ENil; (EBool false); (EInt (0)); (EVar "err")]]
      [];
      SReturn [(ESel (EVar "sbV1") "Signature"); (ESel (EVar "sbV1") "PayloadChunk"); (EBin OEq "bool" (ELen (ESel (EVar "sbV1") "PayloadChunk")) (EInt (0))); (EVar "seqno"); ENil]]);
       ([(EInt (2))], [SVar "sbV2" "signatureBlockV2";
      SAssign ["seqno"; "err"] [(ECall "msgpackStream.Read" [(EVar "mps"); (EAddr "sbV2")])];
      SIf [] (EBin ONe "bool" (EVar "err") ENil)
      [SReturn [ENil; ENil; (EBool false); (EInt (0)); (EVar "err")]]
      [];
      SReturn [(ESel (EVar "sbV2") "Signature"); (ESel (EVar "sbV2") "PayloadChunk"); (ESel (EVar "sbV2") "IsFinal"); (EVar "seqno"); ENil]])]
      (Some [SPanic (EStr "panic")])].

