(* GENERATED from /repo by harness/cmd/gen (goast.go) — do not edit.
   The bodies of the listed functions as terms of the deep embedding of model/GoLang.v. *)
From Coq Require Import List String ZArith.
From SP Require Import GoLang.
Import ListNotations.
Local Open Scope string_scope.
Local Open Scope Z_scope.

(* saltpack.framedDecoderStream_loadHeader, armor.go *)
Definition f_saltpack_framedDecoderStream_loadHeader : gfunc := mkFunc "saltpack.framedDecoderStream_loadHeader" ["s"] [("err", "error")]
     [SIf [] (EBin OEq "bool" (ESel (EVar "s") "state") (EInt (0)))
      [SAssignL [(LField (LVar "s") "header"); (LVar "err")] [(ECall "punctuatedReader.ReadUntilPunctuation" [(ESel (EVar "s") "r"); (ESel (EVar "s") "frameLim")])];
      SIf [] (EBin ONe "bool" (EVar "err") ENil)
      [SReturn [(EVar "err")]]
      [];
      SIf [] (EBin ONe "bool" (ESel (EVar "s") "headerChecker") ENil)
      [SAssign ["headerStr"; "err"] [(ECall "framedDecoderStream.toASCII" [(EVar "s"); (ESel (EVar "s") "header")])];
      SIf [] (EBin ONe "bool" (EVar "err") ENil)
      [SReturn [(EVar "err")]]
      [];
      SAssignL [(LField (LVar "s") "frameBrand"); (LVar "err")] [(ECall "s.headerChecker" [(EVar "headerStr")])];
      SIf [] (EBin ONe "bool" (EVar "err") ENil)
      [SReturn [(EVar "err")]]
      []]
      [];
      SAssignL [(LField (LVar "s") "state")] [(EInt (1))]]
      [];
      SReturn [ENil]].

(* saltpack.framedDecoderStream_Read, armor.go *)
Definition f_saltpack_framedDecoderStream_Read : gfunc := mkFunc "saltpack.framedDecoderStream_Read" ["s"; "p"] [("n", "int"); ("err", "error")]
     [SIf [] (EBin OEq "bool" (ESel (EVar "s") "state") (EInt (0)))
      [SAssign ["err"] [(ECall "framedDecoderStream.loadHeader" [(EVar "s")])];
      SIf [] (EBin ONe "bool" (EVar "err") ENil)
      [SReturn [(EInt (0)); (EVar "err")]]
      []]
      [];
      SIf [] (EBin OEq "bool" (ESel (EVar "s") "state") (EInt (1)))
      [SAssign ["n"; "err"] [(ECall "punctuatedReader.Read" [(ESel (EVar "s") "r"); (EVar "p")])];
      SIf [] (EBin OEq "bool" (EVar "err") (EErrVar "ErrPunctuated"))
      [SAssign ["err"] [ENil];
      SAssignL [(LField (LVar "s") "state")] [(EInt (2))]]
      [];
      SIf [] (EBin OEq "bool" (EVar "err") (EErrVar "io.EOF"))
      [SAssign ["err"] [(EErrVar "io.ErrUnexpectedEOF")]]
      [];
      SIf [] (EBin ONe "bool" (EVar "err") ENil)
      [SReturn [(EInt (0)); (EVar "err")]]
      []]
      [];
      SIf [] (EBin OEq "bool" (ESel (EVar "s") "state") (EInt (2)))
      [SAssignL [(LField (LVar "s") "footer"); (LVar "err")] [(ECall "punctuatedReader.ReadUntilPunctuation" [(ESel (EVar "s") "r"); (ESel (EVar "s") "frameLim")])];
      SIf [] (EBin ONe "bool" (EVar "err") ENil)
      [SReturn [(EInt (0)); (EVar "err")]]
      [];
      SIf [] (EBin ONe "bool" (ESel (EVar "s") "frameChecker") ENil)
      [SAssign ["headerStr"; "err"] [(ECall "framedDecoderStream.toASCII" [(EVar "s"); (ESel (EVar "s") "header")])];
      SIf [] (EBin ONe "bool" (EVar "err") ENil)
      [SReturn [(EInt (0)); (EVar "err")]]
      [];
      SAssign ["footerStr"; "err"] [(ECall "framedDecoderStream.toASCII" [(EVar "s"); (ESel (EVar "s") "footer")])];
      SIf [] (EBin ONe "bool" (EVar "err") ENil)
      [SReturn [(EInt (0)); (EVar "err")]]
      [];
      SIf [SAssign ["_"; "err"] [(ECall "s.frameChecker" [(EVar "headerStr"); (EVar "footerStr")])]] (EBin ONe "bool" (EVar "err") ENil)
      [SReturn [(EInt (0)); (EVar "err")]]
      []]
      [];
      SAssignL [(LField (LVar "s") "state")] [(EInt (3))]]
      [];
      SIf [] (EBin OEq "bool" (ESel (EVar "s") "state") (EInt (3)))
      [SAssign ["err"] [(ECall "framedDecoderStream.consumeUntilEOF" [(EVar "s")])];
      SIf [] (EBin OAnd "bool" (EBin OEq "bool" (EVar "err") (EErrVar "io.EOF")) (EBin OGt "bool" (EVar "n") (EInt (0))))
      [SAssign ["err"] [ENil]]
      []]
      [];
      SReturn [(EVar "n"); (EVar "err")]].

(* saltpack.framedDecoderStream_consumeUntilEOF, armor.go *)
Definition f_saltpack_framedDecoderStream_consumeUntilEOF : gfunc := mkFunc "saltpack.framedDecoderStream_consumeUntilEOF" ["s"] []
     [SAssign ["buf"] [(ECall "make" [(EInt (4096))])];
      SFor (EBool true)
      [SAssign ["n"; "err"] [(ECall "punctuatedReader.Read" [(ESel (EVar "s") "r"); (ESlice (EVar "buf") None None)])];
      SIf [] (EBin ONe "bool" (EVar "err") ENil)
      [SReturn [(EVar "err")]]
      [];
      SIf [] (EBin OEq "bool" (EVar "n") (EInt (0)))
      [SReturn [(EErrVar "io.EOF")]]
      [];
      SIf [] (ENot (ECall "framedDecoderStream.isValidByteSequence" [(EVar "s"); (ESlice (EVar "buf") (Some (EInt (0))) (Some (EVar "n")))]))
      [SReturn [(EErrVar "ErrTrailingGarbage")]]
      []]].

(* saltpack.framedDecoderStream_isValidByteSequence, armor.go *)
Definition f_saltpack_framedDecoderStream_isValidByteSequence : gfunc := mkFunc "saltpack.framedDecoderStream_isValidByteSequence" ["s"; "p"] []
     [SRange "_" "b" (EVar "p")
      [SIf [] (ENot (ECall "Encoding.IsValidByte" [(ESel (ESel (EVar "s") "params") "Encoding"); (EVar "b")]))
      [SReturn [(EBool false)]]
      []];
      SReturn [(EBool true)]].

(* saltpack.framedDecoderStream_toASCII, armor.go *)
Definition f_saltpack_framedDecoderStream_toASCII : gfunc := mkFunc "saltpack.framedDecoderStream_toASCII" ["s"; "buf"] []
     [SIf [] (ENot (ECall "framedDecoderStream.isValidByteSequence" [(EVar "s"); (EVar "buf")]))
      [SReturn [(EStr ""); (ECall "makeErrBadFrame" [(EStr "invalid ASCII sequence")])]]
      [];
      SReturn [(ECall "strings.TrimSpace" [(EConv "string" (EVar "buf"))]); ENil]].

(* saltpack.framedDecoderStream_GetFooter, armor.go *)
Definition f_saltpack_framedDecoderStream_GetFooter : gfunc := mkFunc "saltpack.framedDecoderStream_GetFooter" ["s"] []
     [SIf [] (EBin OLt "bool" (ESel (EVar "s") "state") (EInt (2)))
      [SReturn [(EStr ""); (ECall "fmt.Errorf" [(EStr "the footer can be retrieved only after the stream has been exhausted")])]]
      [];
      SAssign ["r'0"; "r'1"] [(ECall "framedDecoderStream.toASCII" [(EVar "s"); (ESel (EVar "s") "footer")])];
      SReturn [(EVar "r'0"); (EVar "r'1")]].

(* saltpack.framedDecoderStream_GetHeader, armor.go *)
Definition f_saltpack_framedDecoderStream_GetHeader : gfunc := mkFunc "saltpack.framedDecoderStream_GetHeader" ["s"] []
     [SIf [] (EBin OEq "bool" (ESel (EVar "s") "state") (EInt (0)))
      [SIf [SAssign ["err"] [(ECall "framedDecoderStream.loadHeader" [(EVar "s")])]] (EBin ONe "bool" (EVar "err") ENil)
      [SReturn [(EStr ""); (EVar "err")]]
      []]
      [];
      SAssign ["r'0"; "r'1"] [(ECall "framedDecoderStream.toASCII" [(EVar "s"); (ESel (EVar "s") "header")])];
      SReturn [(EVar "r'0"); (EVar "r'1")]].

(* saltpack.framedDecoderStream_GetBrand, armor.go *)
Definition f_saltpack_framedDecoderStream_GetBrand : gfunc := mkFunc "saltpack.framedDecoderStream_GetBrand" ["s"] []
     [SIf [] (EBin OEq "bool" (ESel (EVar "s") "state") (EInt (0)))
      [SIf [SAssign ["err"] [(ECall "framedDecoderStream.loadHeader" [(EVar "s")])]] (EBin ONe "bool" (EVar "err") ENil)
      [SReturn [(EStr ""); (EVar "err")]]
      []]
      [];
      SReturn [(ESel (EVar "s") "frameBrand"); ENil]].

(* basex.Encoding_Encode, encoding.go *)
Definition f_basex_Encoding_Encode : gfunc := mkFunc "basex.Encoding_Encode" ["enc"; "dst"; "src"] []
     [SIf [SAssign ["sp"; "dp"; "sLim"; "dLim"] [(EInt (0)); (EInt (0)); (EInt (0)); (EInt (0))]] (EBool true) [SFor (EBin OLt "bool" (EVar "sp") (ELen (EVar "src")))
      ([SAssign ["sLim"] [(EBin OAdd "int" (EVar "sp") (ESel (EVar "enc") "base256BlockLen"))];
      SAssign ["dLim"] [(EBin OAdd "int" (EVar "dp") (ESel (EVar "enc") "baseXBlockLen"))];
      SIf [] (EBin OGt "bool" (EVar "sLim") (ELen (EVar "src")))
      [SAssign ["sLim"] [(ELen (EVar "src"))]]
      [];
      SIf [] (EBin OGt "bool" (EVar "dLim") (ELen (EVar "dst")))
      [SAssign ["dLim"] [(ELen (EVar "dst"))]]
      [];
      SSliceCall "Encoding.encodeBlock" "dst" (Some (EVar "dp")) (Some (EVar "dLim")) [(ESlice (EVar "src") (Some (EVar "sp")) (Some (EVar "sLim")))]] ++ [SAssign ["sp"; "dp"] [(EVar "sLim"); (EVar "dLim")]])] []].

(* basex.Encoding_getByteType, encoding.go *)
Definition f_basex_Encoding_getByteType : gfunc := mkFunc "basex.Encoding_getByteType" ["enc"; "b"] []
     [SIf [] (EBin ONe "bool" (EIdx (ESel (EVar "enc") "decodeMap") (EVar "b")) ENil)
      [SReturn [(EInt (0))]]
      [];
      SIf [] (EIdx (ESel (EVar "enc") "skipMap") (EVar "b"))
      [SReturn [(EInt (1))]]
      [];
      SReturn [(EInt (2))]].

(* basex.Encoding_hasSkipBytes, encoding.go *)
Definition f_basex_Encoding_hasSkipBytes : gfunc := mkFunc "basex.Encoding_hasSkipBytes" ["enc"] []
     [SReturn [(EBin OGt "bool" (ELen (ESel (EVar "enc") "skipBytes")) (EInt (0)))]].

(* basex.Encoding_IsValidByte, encoding.go *)
Definition f_basex_Encoding_IsValidByte : gfunc := mkFunc "basex.Encoding_IsValidByte" ["enc"; "b"] []
     [SReturn [(EBin OOr "bool" (EBin ONe "bool" (EIdx (ESel (EVar "enc") "decodeMap") (EVar "b")) ENil) (EIdx (ESel (EVar "enc") "skipMap") (EVar "b")))]].

(* basex.Encoding_decode, encoding.go *)
Definition f_basex_Encoding_decode : gfunc := mkFunc "basex.Encoding_decode" ["enc"; "dst"; "src"] [("n", "int"); ("err", "error")]
     [SAssign ["dp"; "sp"] [(EInt (0)); (EInt (0))];
      SFor (EBin OLt "bool" (EVar "sp") (ELen (EVar "src")))
      [SAssign ["di"; "si"; "err"] [(ECall "Encoding.decodeBlock" [(EVar "enc"); (ESlice (EVar "dst") (Some (EVar "dp")) None); (ESlice (EVar "src") (Some (EVar "sp")) None); (EVar "sp")])];
      SIf [] (EBin ONe "bool" (EVar "err") ENil)
      [SReturn [(EVar "dp"); (EVar "err")]]
      [];
      SOpAssign "sp" OAdd "int" (EVar "si");
      SOpAssign "dp" OAdd "int" (EVar "di")];
      SReturn [(EVar "dp"); ENil]].

(* basex.Encoding_Decode, encoding.go *)
Definition f_basex_Encoding_Decode : gfunc := mkFunc "basex.Encoding_Decode" ["enc"; "dst"; "src"] [("n", "int"); ("err", "error")]
     [SAssign ["r'0"; "r'1"] [(ECall "Encoding.decode" [(EVar "enc"); (EVar "dst"); (EVar "src")])];
      SReturn [(EVar "r'0"); (EVar "r'1")]].

(* basex.decoder_Read, stream.go *)
Definition f_basex_decoder_Read : gfunc := mkFunc "basex.decoder_Read" ["d"; "p"] []
     [SIf [] (EBin ONe "bool" (ESel (EVar "d") "err") ENil)
      [SReturn [(EInt (0)); (ESel (EVar "d") "err")]]
      [];
      SIf [] (EBin OGt "bool" (ELen (ESel (EVar "d") "out")) (EInt (0)))
      [SAssign ["ret"] [(ECall "copy" [(EVar "p"); (ESel (EVar "d") "out")])];
      SAssignL [(LField (LVar "d") "out")] [(ESlice (ESel (EVar "d") "out") (Some (EVar "ret")) None)];
      SReturn [(EVar "ret"); ENil]]
      [];
      SAssign ["ibl"] [(ESel (ESel (EVar "d") "enc") "base256BlockLen")];
      SAssign ["obl"] [(ESel (ESel (EVar "d") "enc") "baseXBlockLen")];
      SAssign ["nn"] [(EBin OMul "int" (EBin ODiv "int" (ELen (EVar "p")) (EVar "ibl")) (EVar "obl"))];
      SIf [] (EBin OLt "bool" (EVar "nn") (EVar "obl"))
      [SAssign ["nn"] [(EVar "obl")]]
      [];
      SIf [] (EBin OGt "bool" (EVar "nn") (ELen (ESel (EVar "d") "buf")))
      [SAssign ["nn"] [(ELen (ESel (EVar "d") "buf"))]]
      [];
      SFor (EBin OAnd "bool" (EBin OLt "bool" (ESel (EVar "d") "nbuf") (EVar "obl")) (EBin OEq "bool" (ESel (EVar "d") "err") ENil))
      [SVar "n" "int";
      SAssignL [(LVar "n"); (LField (LVar "d") "err")] [(ECall "Reader.Read" [(ESel (EVar "d") "r"); (ESlice (ESel (EVar "d") "buf") (Some (ESel (EVar "d") "nbuf")) (Some (EVar "nn")))])];
      SOpAssignL (LField (LVar "d") "nbuf") OAdd "int" (EVar "n")];
      SAssign ["eof"] [(EBool false)];
      SIf [] (EBin OEq "bool" (ESel (EVar "d") "err") (EErrVar "io.EOF"))
      [SIf [] (EBin OEq "bool" (ESel (EVar "d") "nbuf") (EInt (0)))
      [SReturn [(EInt (0)); (ESel (EVar "d") "err")]]
      [];
      SAssign ["eof"] [(EBool true)];
      SAssignL [(LField (LVar "d") "err")] [ENil]]
      [SIf [] (EBin ONe "bool" (ESel (EVar "d") "err") ENil)
      [SReturn [(EInt (0)); (ESel (EVar "d") "err")]]
      []];
      SAssign ["numBytesToDecode"] [(ESel (EVar "d") "nbuf")];
      SIf [] (ENot (EVar "eof"))
      [SAssign ["numBytesToDecode"] [(EBin OMul "int" (EBin ODiv "int" (EVar "numBytesToDecode") (EVar "obl")) (EVar "obl"))]]
      [];
      SAssign ["numBytesToOutput"] [(ECall "Encoding.DecodedLen" [(ESel (EVar "d") "enc"); (EVar "numBytesToDecode")])];
      SVar "ret" "int";
      SIf [] (EBin OGt "bool" (EVar "numBytesToOutput") (ELen (EVar "p")))
      [SVar "n" "int";
      SAssignL [(LVar "n"); (LField (LVar "d") "err")] [(ECall "Encoding.Decode" [(ESel (EVar "d") "enc"); (ESel (EVar "d") "scratchbuf"); (ESlice (ESel (EVar "d") "buf") None (Some (EVar "numBytesToDecode")))])];
      SAssignL [(LField (LVar "d") "out")] [(ESlice (ESel (EVar "d") "scratchbuf") None (Some (EVar "n")))];
      SAssign ["ret"] [(ECall "copy" [(EVar "p"); (ESel (EVar "d") "out")])];
      SAssignL [(LField (LVar "d") "out")] [(ESlice (ESel (EVar "d") "out") (Some (EVar "ret")) None)]]
      [SAssignL [(LVar "ret"); (LField (LVar "d") "err")] [(ECall "Encoding.Decode" [(ESel (EVar "d") "enc"); (EVar "p"); (ESlice (ESel (EVar "d") "buf") None (Some (EVar "numBytesToDecode")))])]];
      SOpAssignL (LField (LVar "d") "nbuf") OSub "int" (EVar "numBytesToDecode");
      SExpr (ECall "copy" [(ESlice (ESel (EVar "d") "buf") (Some (EInt (0))) (Some (ESel (EVar "d") "nbuf"))); (ESlice (ESel (EVar "d") "buf") (Some (EVar "numBytesToDecode")) (Some (EBin OAdd "int" (EVar "numBytesToDecode") (ESel (EVar "d") "nbuf"))))]);
      SIf [] (EBin OAnd "bool" (EBin OAnd "bool" (EBin OEq "bool" (EVar "ret") (EInt (0))) (EBin OEq "bool" (ESel (EVar "d") "err") ENil)) (EBin ONe "bool" (ELen (EVar "p")) (EInt (0))))
      [SReturn [(EInt (0)); (EErrVar "io.EOF")]]
      [];
      SReturn [(EVar "ret"); (ESel (EVar "d") "err")]].

(* basex.filteringReader_Read, stream.go *)
Definition f_basex_filteringReader_Read : gfunc := mkFunc "basex.filteringReader_Read" ["r"; "p"] []
     [SAssign ["n"; "err"] [(ECall "Reader.Read" [(ESel (EVar "r") "wrapped"); (EVar "p")])];
      SFor (EBin OGt "bool" (EVar "n") (EInt (0)))
      [SAssign ["offset"] [(EInt (0))];
      SRange "i" "b" (ESlice (EVar "p") None (Some (EVar "n")))
      [SAssign ["typ"] [(ECall "Encoding.getByteType" [(ESel (EVar "r") "enc"); (EVar "b")])];
      SIf [] (EBin OEq "bool" (EVar "typ") (EInt (2)))
      [SReturn [(EInt (0)); (ELit "CorruptInputError" [("0", (ESel (EVar "r") "nRead"))])]]
      [];
      SOpAssignL (LField (LVar "r") "nRead") OAdd "int" (EInt 1);
      SIf [] (EBin OEq "bool" (EVar "typ") (EInt (1)))
      [SContinue]
      [];
      SIf [] (EBin ONe "bool" (EVar "i") (EVar "offset"))
      [SIdxOp "p" (EVar "offset") None (EVar "b")]
      [];
      SOpAssign "offset" OAdd "int" (EInt 1)];
      SIf [] (EBin OOr "bool" (EBin OGt "bool" (EVar "offset") (EInt (0))) (EBin ONe "bool" (EVar "err") ENil))
      [SReturn [(EVar "offset"); (EVar "err")]]
      [];
      SAssign ["n"; "err"] [(ECall "Reader.Read" [(ESel (EVar "r") "wrapped"); (EVar "p")])]];
      SReturn [(EVar "n"); (EVar "err")]].

