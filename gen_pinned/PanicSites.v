(* GENERATED from /repo by harness/cmd/gen — do not edit. *)
From Coq Require Import List String NArith.
Import ListNotations.
Open Scope string_scope.

(* function, explicit panics, calls of length-checking helpers that panic, index expressions (non-map), slice expressions, unchecked type assertions *)
Definition panic_sites : list (string * (N * N * N * N * N)) := [
  ("basex.Encoding_DecodeString", (0, 0, 0, 1, 0)%N);
  ("basex.Encoding_Encode", (0, 0, 0, 2, 0)%N);
  ("basex.Encoding_IsValidByte", (0, 0, 2, 0, 0)%N);
  ("basex.Encoding_decode", (0, 0, 0, 2, 0)%N);
  ("basex.Encoding_decodeBlock", (0, 0, 2, 1, 0)%N);
  ("basex.Encoding_encodeBlock", (0, 0, 4, 0, 0)%N);
  ("basex.Encoding_getByteType", (0, 0, 2, 0, 0)%N);
  ("basex.NewEncoding", (0, 0, 3, 0, 0)%N);
  ("basex.decoder_Read", (0, 0, 0, 8, 0)%N);
  ("basex.encoder_Close", (0, 0, 0, 2, 0)%N);
  ("basex.encoder_Write", (0, 0, 2, 6, 0)%N);
  ("basex.filteringReader_Read", (0, 0, 1, 1, 0)%N);
  ("saltpack.IsSaltpackArmoredPrefix", (1, 0, 6, 1, 0)%N);
  ("saltpack.IsSaltpackBinarySlice", (0, 0, 4, 1, 0)%N);
  ("saltpack.VerifyDetachedReader", (0, 0, 0, 1, 0)%N);
  ("saltpack.assertEncodedChunkState", (2, 0, 0, 0, 0)%N);
  ("saltpack.attachedSignatureInput", (1, 0, 0, 1, 0)%N);
  ("saltpack.checkChunkState", (2, 0, 0, 0, 0)%N);
  ("saltpack.chunkReader_Read", (1, 0, 0, 2, 0)%N);
  ("saltpack.computeMACKeyReceiver", (1, 0, 0, 2, 0)%N);
  ("saltpack.computeMACKeySingle", (0, 1, 0, 1, 0)%N);
  ("saltpack.computePayloadAuthenticator", (0, 1, 0, 3, 0)%N);
  ("saltpack.computePayloadHash", (1, 1, 0, 2, 0)%N);
  ("saltpack.computeSigncryptionSignatureInput", (0, 0, 0, 3, 0)%N);
  ("saltpack.copyEqualSize", (1, 0, 0, 0, 0)%N);
  ("saltpack.copyEqualSizeStr", (1, 0, 0, 0, 0)%N);
  ("saltpack.decryptStream_processBlock", (0, 0, 1, 0, 0)%N);
  ("saltpack.decryptStream_processHeader", (0, 0, 0, 3, 0)%N);
  ("saltpack.decryptStream_tryVisibleReceivers", (0, 0, 1, 0, 0)%N);
  ("saltpack.detachedSignatureInput", (0, 0, 0, 1, 0)%N);
  ("saltpack.framedDecoderStream_consumeUntilEOF", (0, 0, 0, 2, 0)%N);
  ("saltpack.newPunctuatedReader", (0, 0, 1, 0, 0)%N);
  ("saltpack.newRandomSymmetricKey", (0, 0, 0, 1, 0)%N);
  ("saltpack.newSigNonce", (0, 0, 0, 1, 0)%N);
  ("saltpack.newSignatureHeader", (0, 0, 0, 1, 0)%N);
  ("saltpack.nonceForChunkSecretBox", (0, 1, 0, 2, 0)%N);
  ("saltpack.nonceForChunkSigncryption", (0, 1, 2, 3, 0)%N);
  ("saltpack.nonceForDerivedSharedKey", (0, 1, 0, 0, 0)%N);
  ("saltpack.nonceForMACKeyBoxV1", (0, 1, 0, 1, 0)%N);
  ("saltpack.nonceForMACKeyBoxV2", (0, 1, 2, 3, 0)%N);
  ("saltpack.nonceForPayloadKeyBox", (1, 1, 0, 0, 0)%N);
  ("saltpack.nonceForPayloadKeyBoxV2", (0, 1, 0, 2, 0)%N);
  ("saltpack.nonceForSenderKeySecretBox", (0, 1, 0, 0, 0)%N);
  ("saltpack.parseFrame", (0, 0, 5, 0, 0)%N);
  ("saltpack.payloadAuthenticator_Equal", (0, 0, 0, 2, 0)%N);
  ("saltpack.pop", (0, 0, 0, 2, 0)%N);
  ("saltpack.punctuatedReader_Read", (0, 0, 0, 6, 0)%N);
  ("saltpack.punctuatedReader_ReadUntilPunctuation", (0, 0, 0, 2, 0)%N);
  ("saltpack.rawBoxKeyFromSlice", (0, 1, 0, 0, 0)%N);
  ("saltpack.readEncryptionBlock", (1, 0, 0, 0, 0)%N);
  ("saltpack.readSignatureBlock", (1, 0, 0, 0, 0)%N);
  ("saltpack.shift", (0, 0, 0, 2, 0)%N);
  ("saltpack.signcryptOpenStream_processBlock", (0, 1, 0, 3, 0)%N);
  ("saltpack.signcryptOpenStream_trySharedSymmetricKeys", (1, 0, 1, 2, 0)%N);
  ("saltpack.sliceToByte24", (0, 1, 0, 1, 0)%N);
  ("saltpack.sliceToByte32", (0, 1, 0, 1, 0)%N);
  ("saltpack.sliceToByte64", (0, 1, 0, 1, 0)%N);
  ("saltpack.stringToByte24", (0, 1, 0, 1, 0)%N);
  ("saltpack.sum512Truncate256", (0, 1, 0, 1, 0)%N);
  ("saltpack.symmetricKeyFromSlice", (0, 1, 0, 0, 0)%N)
].
