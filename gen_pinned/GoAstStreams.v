(* GENERATED from /repo by harness/cmd/gen (goast.go) — do not edit.
   The bodies of the listed functions as terms of the deep embedding of model/GoLang.v. *)
From Coq Require Import List String ZArith.
From SP Require Import GoLang.
Import ListNotations.
Local Open Scope string_scope.
Local Open Scope Z_scope.

(* saltpack.chunkReader_Read, chunk_reader.go *)
Definition f_saltpack_chunkReader_Read : gfunc := mkFunc "saltpack.chunkReader_Read" ["r"; "p"] [("n", "int"); ("err", "error")]
     [SFor (EBool true)
      [SIf [] (EBin OGt "bool" (ELen (ESel (EVar "r") "prevChunk")) (EInt (0)))
      [SAssign ["copied"] [(ECall "copy" [(ESlice (EVar "p") (Some (EVar "n")) None); (ESel (EVar "r") "prevChunk")])];
      SOpAssign "n" OAdd "int" (EVar "copied");
      SAssignL [(LField (LVar "r") "prevChunk")] [(ESlice (ESel (EVar "r") "prevChunk") (Some (EVar "copied")) None)];
      SIf [] (EBin OGt "bool" (ELen (ESel (EVar "r") "prevChunk")) (EInt (0)))
      [SReturn [(EVar "n"); ENil]]
      []]
      [];
      SIf [] (EBin ONe "bool" (ESel (EVar "r") "prevErr") ENil)
      [SReturn [(EVar "n"); (ESel (EVar "r") "prevErr")]]
      [];
      SAssignL [(LField (LVar "r") "prevChunk"); (LField (LVar "r") "prevErr")] [(ECall "chunker.getNextChunk" [(ESel (EVar "r") "chunker")])];
      SIf [] (EBin OAnd "bool" (EBin OEq "bool" (ELen (ESel (EVar "r") "prevChunk")) (EInt (0))) (EBin OEq "bool" (ESel (EVar "r") "prevErr") ENil))
      [SPanic (EStr "panic")]
      []]].

(* saltpack.punctuatedReader_Read, punctuated_reader.go *)
Definition f_saltpack_punctuatedReader_Read : gfunc := mkFunc "saltpack.punctuatedReader_Read" ["p"; "out"] [("n", "int"); ("err", "error")]
     [SIf [] (EBin OGt "bool" (ELen (ESel (EVar "p") "thisSegment")) (EInt (0)))
      [SAssign ["n"] [(ECall "copy" [(EVar "out"); (ESel (EVar "p") "thisSegment")])];
      SAssignL [(LField (LVar "p") "thisSegment")] [(ESlice (ESel (EVar "p") "thisSegment") (Some (EVar "n")) None)];
      SIf [] (EBin OEq "bool" (ELen (ESel (EVar "p") "thisSegment")) (EInt (0)))
      [SAssign ["err"] [(ESel (EVar "p") "errThisSegment")];
      SAssignL [(LField (LVar "p") "errThisSegment")] [ENil]]
      [];
      SReturn [(EVar "n"); (EVar "err")]]
      [];
      SVar "src" "[]byte";
      SAssign ["usedBuffer"] [(EBool false)];
      SIf [] (EBin OGt "bool" (ELen (ESel (EVar "p") "nextSegment")) (EInt (0)))
      [SAssign ["src"] [(ESel (EVar "p") "nextSegment")];
      SAssign ["usedBuffer"] [(EBool true)];
      SAssignL [(LField (LVar "p") "nextSegment")] [ENil]]
      [SIf [] (EBin ONe "bool" (ESel (EVar "p") "errRead") ENil)
      [SReturn [(EInt (0)); (ESel (EVar "p") "errRead")]]
      [];
      SAssign ["n"; "err"] [(ECall "Reader.Read" [(ESel (EVar "p") "r"); (EVar "out")])];
      SIf [] (EBin ONe "bool" (EVar "err") ENil)
      [SIf [] (EBin OEq "bool" (EVar "n") (EInt (0)))
      [SReturn [(EInt (0)); (EVar "err")]]
      [];
      SAssignL [(LField (LVar "p") "errRead")] [(EVar "err")];
      SAssign ["err"] [ENil]]
      [];
      SAssign ["src"] [(ESlice (EVar "out") (Some (EInt (0))) (Some (EVar "n")))]];
      SAssign ["foundPunc"] [(EBool false)];
      SIf [SAssign ["i"] [(ECall "bytes.Index" [(EVar "src"); (ESlice (ESel (EVar "p") "punctuation") None None)])]] (EBin OGe "bool" (EVar "i") (EInt (0)))
      [SAssignL [(LField (LVar "p") "nextSegment")] [(ESlice (EVar "src") (Some (EBin OAdd "int" (EVar "i") (EInt (1)))) None)];
      SAssign ["src"] [(ESlice (EVar "src") (Some (EInt (0))) (Some (EVar "i")))];
      SAssign ["n"] [(ELen (EVar "src"))];
      SAssign ["foundPunc"] [(EBool true)]]
      [];
      SIf [] (EVar "usedBuffer")
      [SAssign ["n"] [(ECall "copy" [(EVar "out"); (EVar "src")])];
      SAssignL [(LField (LVar "p") "thisSegment")] [(ESlice (EVar "src") (Some (EVar "n")) None)]]
      [];
      SIf [] (EVar "foundPunc")
      [SIf [] (EBin OGt "bool" (ELen (ESel (EVar "p") "thisSegment")) (EInt (0)))
      [SAssignL [(LField (LVar "p") "errThisSegment")] [(EErrVar "ErrPunctuated")]]
      [SAssign ["err"] [(EErrVar "ErrPunctuated")]]]
      [];
      SReturn [(EVar "n"); (EVar "err")]].

(* saltpack.punctuatedReader_ReadUntilPunctuation, punctuated_reader.go *)
Definition f_saltpack_punctuatedReader_ReadUntilPunctuation : gfunc := mkFunc "saltpack.punctuatedReader_ReadUntilPunctuation" ["p"; "lim"] [("res", "[]byte"); ("err", "error")]
     [SFor (EBool true)
      [SVar "n" "int";
      SAssign ["n"; "err"] [(ECall "punctuatedReader.Read" [(EVar "p"); (ESlice (ESel (EVar "p") "buf") None None)])];
      SSwitch [] (Some (EVar "err"))
      [([ENil; (EErrVar "ErrPunctuated")], [SAssign ["res"] [(ECall "append..." [(EVar "res"); (ESlice (ESel (EVar "p") "buf") (Some (EInt (0))) (Some (EVar "n")))])];
      SIf [] (EBin OGe "bool" (ELen (EVar "res")) (EVar "lim"))
      [SReturn [ENil; (EErrVar "ErrOverflow")]]
      [];
      SIf [] (EBin OEq "bool" (EVar "err") (EErrVar "ErrPunctuated"))
      [SAssign ["err"] [ENil];
      SReturn [(EVar "res"); (EVar "err")]]
      []]);
       ([(EErrVar "io.EOF")], [SAssign ["err"] [(EErrVar "io.ErrUnexpectedEOF")];
      SReturn [ENil; (EVar "err")]])]
      (Some [SReturn [ENil; (EVar "err")]]);
      SIf [] (EBin OEq "bool" (EVar "n") (EInt (0)))
      [SReturn [ENil; (EErrVar "io.ErrUnexpectedEOF")]]
      []]].

