(* GENERATED from /repo by harness/cmd/gen (goast.go) — do not edit.
   The bodies of the listed functions as terms of the deep embedding of model/GoLang.v. *)
From Coq Require Import List String ZArith.
From SP Require Import GoLang.
Import ListNotations.
Local Open Scope string_scope.
Local Open Scope Z_scope.

(* saltpack.IsSaltpackBinarySlice, classify_and_decrypt.go *)
Definition f_saltpack_IsSaltpackBinarySlice : gfunc := mkFunc "saltpack.IsSaltpackBinarySlice" ["b"] [("msgType", "int"); ("version", "Version"); ("err", "error")]
     [SIf [] (EBin OLt "bool" (ELen (EVar "b")) (EInt (23)))
      [SReturn [(EInt (-1)); (ELit "Version" []); (EErrVar "ErrShortSliceOrBuffer")]]
      [];
      SVar "binTagBytesToSkip" "int";
      SIf [] (EBin OEq "bool" (EIdx (EVar "b") (EInt (0))) (EInt (196)))
      [SAssign ["binTagBytesToSkip"] [(EInt (2))]]
      [SIf [] (EBin OEq "bool" (EIdx (EVar "b") (EInt (0))) (EInt (197)))
      [SAssign ["binTagBytesToSkip"] [(EInt (3))]]
      [SIf [] (EBin OEq "bool" (EIdx (EVar "b") (EInt (0))) (EInt (198)))
      [SAssign ["binTagBytesToSkip"] [(EInt (5))]]
      [SReturn [(EInt (-1)); (ELit "Version" []); (EErrVar "ErrNotASaltpackMessage")]]]];
      SAssign ["arrayTagByte"] [(EIdx (EVar "b") (EVar "binTagBytesToSkip"))];
      SVar "arrayTagBytesToSkip" "int";
      SIf [] (EBin OAnd "bool" (EBin OLe "bool" (EInt (147)) (EVar "arrayTagByte")) (EBin OLe "bool" (EVar "arrayTagByte") (EInt (159))))
      [SAssign ["arrayTagBytesToSkip"] [(EInt (1))]]
      [SIf [] (EBin OEq "bool" (EVar "arrayTagByte") (EInt (220)))
      [SAssign ["arrayTagBytesToSkip"] [(EInt (3))]]
      [SIf [] (EBin OEq "bool" (EVar "arrayTagByte") (EInt (221)))
      [SAssign ["arrayTagBytesToSkip"] [(EInt (5))]]
      [SReturn [(EInt (-1)); (ELit "Version" []); (EErrVar "ErrNotASaltpackMessage")]]]];
      SVar "mh" "MsgpackHandle";
      SAssign ["decoder"] [(ECall "codec.NewDecoderBytes" [(ESlice (EVar "b") (Some (EBin OAdd "int" (EVar "binTagBytesToSkip") (EVar "arrayTagBytesToSkip"))) None); (EAddr "mh")])];
      SVar "formatName" "string";
      SIf [SAssign ["err"] [(ECall "Decoder.Decode" [(EVar "decoder"); (EAddr "formatName")])]] (EBin ONe "bool" (EVar "err") ENil)
      [SReturn [(EInt (-1)); (ELit "Version" []); (EErrVar "ErrNotASaltpackMessage")]]
      [];
      SIf [] (EBin ONe "bool" (EVar "formatName") (EStr "saltpack"))
      [SReturn [(EInt (-1)); (ELit "Version" []); (EErrVar "ErrNotASaltpackMessage")]]
      [];
      SIf [SAssign ["err"] [(ECall "Decoder.Decode" [(EVar "decoder"); (EAddr "version")])]] (EBin ONe "bool" (EVar "err") ENil)
      [SReturn [(EInt (-1)); (ELit "Version" []); (EErrVar "ErrNotASaltpackMessage")]]
      [];
      SIf [SAssign ["err"] [(ECall "Decoder.Decode" [(EVar "decoder"); (EAddr "msgType")])]] (EBin ONe "bool" (EVar "err") ENil)
      [SReturn [(EInt (-1)); (ELit "Version" []); (EErrVar "ErrNotASaltpackMessage")]]
      [];
      SSwitch [] (Some (EVar "msgType"))
      [([(EInt (0)); (EInt (3)); (EInt (1)); (EInt (2))], [SReturn [(EVar "msgType"); (EVar "version"); ENil]])]
      (Some [SReturn [(EInt (-1)); (ELit "Version" []); (EErrVar "ErrNotASaltpackMessage")]])].

(* saltpack.encryptionBlockNumber_check, common.go *)
Definition f_saltpack_encryptionBlockNumber_check : gfunc := mkFunc "saltpack.encryptionBlockNumber_check" ["e"] []
     [SIf [] (EBin OGe "bool" (EVar "e") (EInt (18446744073709551615)))
      [SReturn [(EErrVar "ErrPacketOverflow")]]
      [];
      SReturn [ENil]].

(* saltpack.attachedSignatureInput, common.go *)
Definition f_saltpack_attachedSignatureInput : gfunc := mkFunc "saltpack.attachedSignatureInput" ["version"; "headerHash"; "payloadChunk"; "seqno"; "isFinal"] []
     [SAssign ["hasher"] [(ECall "sha512.New" [])];
      SAssign ["_"; "_"] [(ECall "Hash.Write" [(EVar "hasher"); (ESlice (EVar "headerHash") None None)])];
      SAssign ["_"] [(ECall "binary.Write" [(EVar "hasher"); (EPkg "binary.BigEndian"); (EVar "seqno")])];
      SSwitch [] (Some (ESel (EVar "version") "Major"))
      [([(EInt (1))], []);
       ([(EInt (2))], [SVar "isFinalByte" "byte";
      SIf [] (EVar "isFinal")
      [SAssign ["isFinalByte"] [(EInt (1))]]
      [];
      SAssign ["_"; "_"] [(ECall "Hash.Write" [(EVar "hasher"); (ELit "[]byte" [("0", (EVar "isFinalByte"))])])]])]
      (Some [SPanic (EStr "panic")]);
      SAssign ["_"; "_"] [(ECall "Hash.Write" [(EVar "hasher"); (EVar "payloadChunk")])];
      SVar "buf" "Buffer";
      SAssign ["_"; "_"] [(ECall "Buffer.Write" [(EVar "buf"); (EConv "[]byte" (EBytesLit [115; 97; 108; 116; 112; 97; 99; 107; 32; 97; 116; 116; 97; 99; 104; 101; 100; 32; 115; 105; 103; 110; 97; 116; 117; 114; 101; 0]))])];
      SAssign ["_"; "_"] [(ECall "Buffer.Write" [(EVar "buf"); (ECall "Hash.Sum" [(EVar "hasher"); ENil])])];
      SReturn [(ECall "Buffer.Bytes" [(EVar "buf")])]].

(* saltpack.detachedSignatureInput, common.go *)
Definition f_saltpack_detachedSignatureInput : gfunc := mkFunc "saltpack.detachedSignatureInput" ["headerHash"; "plaintext"] []
     [SAssign ["hasher"] [(ECall "sha512.New" [])];
      SAssign ["_"; "_"] [(ECall "Hash.Write" [(EVar "hasher"); (ESlice (EVar "headerHash") None None)])];
      SAssign ["_"; "_"] [(ECall "Hash.Write" [(EVar "hasher"); (EVar "plaintext")])];
      SReturn [(ECall "detachedSignatureInputFromHash" [(ECall "Hash.Sum" [(EVar "hasher"); ENil])])]].

(* saltpack.detachedSignatureInputFromHash, common.go *)
Definition f_saltpack_detachedSignatureInputFromHash : gfunc := mkFunc "saltpack.detachedSignatureInputFromHash" ["plaintextAndHeaderHash"] []
     [SVar "buf" "Buffer";
      SAssign ["_"; "_"] [(ECall "Buffer.Write" [(EVar "buf"); (EConv "[]byte" (EBytesLit [115; 97; 108; 116; 112; 97; 99; 107; 32; 100; 101; 116; 97; 99; 104; 101; 100; 32; 115; 105; 103; 110; 97; 116; 117; 114; 101; 0]))])];
      SAssign ["_"; "_"] [(ECall "Buffer.Write" [(EVar "buf"); (EVar "plaintextAndHeaderHash")])];
      SReturn [(ECall "Buffer.Bytes" [(EVar "buf")])]].

(* saltpack.computePayloadAuthenticator, common.go *)
Definition f_saltpack_computePayloadAuthenticator : gfunc := mkFunc "saltpack.computePayloadAuthenticator" ["macKey"; "payloadHash"] []
     [SAssign ["authenticatorDigest"] [(ECall "hmac.New" [(EPkg "sha512.New"); (ESlice (EVar "macKey") None None)])];
      SAssign ["_"; "_"] [(ECall "Hash.Write" [(EVar "authenticatorDigest"); (ESlice (EVar "payloadHash") None None)])];
      SAssign ["fullMAC"] [(ECall "Hash.Sum" [(EVar "authenticatorDigest"); ENil])];
      SReturn [(ECall "sliceToByte32" [(ESlice (EVar "fullMAC") None (Some (EInt (32))))])]].

(* saltpack.computeMACKeySingle, common.go *)
Definition f_saltpack_computeMACKeySingle : gfunc := mkFunc "saltpack.computeMACKeySingle" ["secret"; "public"; "nonce"] []
     [SAssign ["macKeyBox"] [(ECall "BoxSecretKey.Box" [(EVar "secret"); (EVar "public"); (EVar "nonce"); (ECall "make" [(EInt (32))])])];
      SReturn [(ECall "sliceToByte32" [(ESlice (EVar "macKeyBox") (Some (EInt (16))) (Some (EInt (48))))])]].

(* saltpack.computePayloadHash, common.go *)
Definition f_saltpack_computePayloadHash : gfunc := mkFunc "saltpack.computePayloadHash" ["version"; "headerHash"; "nonce"; "ciphertext"; "isFinal"] []
     [SAssign ["payloadDigest"] [(ECall "sha512.New" [])];
      SAssign ["_"; "_"] [(ECall "Hash.Write" [(EVar "payloadDigest"); (ESlice (EVar "headerHash") None None)])];
      SAssign ["_"; "_"] [(ECall "Hash.Write" [(EVar "payloadDigest"); (ESlice (EVar "nonce") None None)])];
      SSwitch [] (Some (ESel (EVar "version") "Major"))
      [([(EInt (1))], []);
       ([(EInt (2))], [SVar "isFinalByte" "byte";
      SIf [] (EVar "isFinal")
      [SAssign ["isFinalByte"] [(EInt (1))]]
      [];
      SAssign ["_"; "_"] [(ECall "Hash.Write" [(EVar "payloadDigest"); (ELit "[]byte" [("0", (EVar "isFinalByte"))])])]])]
      (Some [SPanic (EStr "panic")]);
      SAssign ["_"; "_"] [(ECall "Hash.Write" [(EVar "payloadDigest"); (EVar "ciphertext")])];
      SAssign ["h"] [(ECall "Hash.Sum" [(EVar "payloadDigest"); ENil])];
      SReturn [(ECall "sliceToByte64" [(EVar "h")])]].

(* saltpack.computeSigncryptionSignatureInput, common.go *)
Definition f_saltpack_computeSigncryptionSignatureInput : gfunc := mkFunc "saltpack.computeSigncryptionSignatureInput" ["headerHash"; "nonce"; "isFinal"; "chunkPlaintext"] []
     [SAssign ["signatureInput"] [(EConv "[]byte" (EBytesLit [115; 97; 108; 116; 112; 97; 99; 107; 32; 101; 110; 99; 114; 121; 112; 116; 101; 100; 32; 115; 105; 103; 110; 97; 116; 117; 114; 101; 0]))];
      SAssign ["signatureInput"] [(ECall "append..." [(EVar "signatureInput"); (ESlice (EVar "headerHash") None None)])];
      SAssign ["signatureInput"] [(ECall "append..." [(EVar "signatureInput"); (ESlice (EVar "nonce") None None)])];
      SVar "isFinalByte" "byte";
      SIf [] (EVar "isFinal")
      [SAssign ["isFinalByte"] [(EInt (1))]]
      [];
      SAssign ["signatureInput"] [(ECall "append" [(EVar "signatureInput"); (EVar "isFinalByte")])];
      SAssign ["plaintextHash"] [(ECall "sha512.Sum512" [(EVar "chunkPlaintext")])];
      SAssign ["signatureInput"] [(ECall "append..." [(EVar "signatureInput"); (ESlice (EVar "plaintextHash") None None)])];
      SReturn [(EVar "signatureInput")]].

(* saltpack.CheckKnownMajorVersion, common.go *)
Definition f_saltpack_CheckKnownMajorVersion : gfunc := mkFunc "saltpack.CheckKnownMajorVersion" ["version"] []
     [SRange "_" "knownVersion" (ECall "KnownVersions" [])
      [SIf [] (EBin OEq "bool" (ESel (EVar "version") "Major") (ESel (EVar "knownVersion") "Major"))
      [SReturn [ENil]]
      []];
      SReturn [(ELit "ErrBadVersion" [("received", (EVar "version"))])]].

(* saltpack.checkChunkState, common.go *)
Definition f_saltpack_checkChunkState : gfunc := mkFunc "saltpack.checkChunkState" ["version"; "chunkLen"; "blockIndex"; "isFinal"] []
     [SSwitch [] (Some (ESel (EVar "version") "Major"))
      [([(EInt (1))], [SIf [] (EBin ONe "bool" (EBin OEq "bool" (EVar "chunkLen") (EInt (0))) (EVar "isFinal"))
      [SPanic (EStr "panic")]
      []]);
       ([(EInt (2))], [SIf [] (EBin OAnd "bool" (EBin OEq "bool" (EVar "chunkLen") (EInt (0))) (EBin OOr "bool" (EBin ONe "bool" (EVar "blockIndex") (EInt (0))) (ENot (EVar "isFinal"))))
      [SReturn [(EErrVar "ErrUnexpectedEmptyBlock")]]
      []])]
      (Some [SPanic (EStr "panic")]);
      SReturn [ENil]].

(* saltpack.checkDecodedChunkState, common.go *)
Definition f_saltpack_checkDecodedChunkState : gfunc := mkFunc "saltpack.checkDecodedChunkState" ["version"; "chunk"; "seqno"; "isFinal"] []
     [SReturn [(ECall "checkChunkState" [(EVar "version"); (ELen (EVar "chunk")); (EConv "uint64" (EBin OSub "uint64" (EVar "seqno") (EInt (1)))); (EVar "isFinal")])]].

(* saltpack.computeMACKeyReceiver, decrypt.go *)
Definition f_saltpack_computeMACKeyReceiver : gfunc := mkFunc "saltpack.computeMACKeyReceiver" ["version"; "index"; "secret"; "public"; "ePublic"; "headerHash"] []
     [SSwitch [] (Some (ESel (EVar "version") "Major"))
      [([(EInt (1))], [SAssign ["nonce"] [(ECall "nonceForMACKeyBoxV1" [(EVar "headerHash")])];
      SReturn [(ECall "computeMACKeySingle" [(EVar "secret"); (EVar "public"); (EVar "nonce")])]]);
       ([(EInt (2))], [SAssign ["nonce"] [(ECall "nonceForMACKeyBoxV2" [(EVar "headerHash"); (EBool false); (EVar "index")])];
      SAssign ["mac"] [(ECall "computeMACKeySingle" [(EVar "secret"); (EVar "public"); (EVar "nonce")])];
      SAssign ["eNonce"] [(ECall "nonceForMACKeyBoxV2" [(EVar "headerHash"); (EBool true); (EVar "index")])];
      SAssign ["eMAC"] [(ECall "computeMACKeySingle" [(EVar "secret"); (EVar "ePublic"); (EVar "eNonce")])];
      SReturn [(ECall "sum512Truncate256" [(ECall "append..." [(ESlice (EVar "mac") None None); (ESlice (EVar "eMAC") None None)])])]])]
      (Some [SPanic (EStr "panic")])].

(* saltpack.decryptStream_processBlock, decrypt.go *)
Definition f_saltpack_decryptStream_processBlock : gfunc := mkFunc "saltpack.decryptStream_processBlock" ["ds"; "ciphertext"; "authenticators"; "isFinal"; "seqno"] []
     [SAssign ["blockNum"] [(EConv "uint64" (EBin OSub "uint64" (EVar "seqno") (EInt (1))))];
      SIf [SAssign ["err"] [(ECall "encryptionBlockNumber.check" [(EVar "blockNum")])]] (EBin ONe "bool" (EVar "err") ENil)
      [SReturn [ENil; (EVar "err")]]
      [];
      SAssign ["nonce"] [(ECall "nonceForChunkSecretBox" [(EVar "blockNum")])];
      SAssign ["hashToAuthenticate"] [(ECall "computePayloadHash" [(ESel (EVar "ds") "version"); (ESel (EVar "ds") "headerHash"); (EVar "nonce"); (EVar "ciphertext"); (EVar "isFinal")])];
      SAssign ["ourAuthenticator"] [(ECall "computePayloadAuthenticator" [(ESel (EVar "ds") "macKey"); (EVar "hashToAuthenticate")])];
      SIf [] (EBin OOr "bool" (EBin OGe "bool" (ESel (EVar "ds") "position") (ELen (EVar "authenticators"))) (ENot (ECall "payloadAuthenticator.Equal" [(EVar "ourAuthenticator"); (EIdx (EVar "authenticators") (ESel (EVar "ds") "position"))])))
      [SReturn [ENil; (ELit "ErrBadTag" [("0", (EVar "seqno"))])]]
      [];
      SAssign ["plaintext"; "ok"] [(ECall "secretbox.Open" [(ELit "[]byte" []); (EVar "ciphertext"); (EVar "nonce"); (ESel (EVar "ds") "payloadKey")])];
      SIf [] (ENot (EVar "ok"))
      [SReturn [ENil; (ELit "ErrBadCiphertext" [("0", (EVar "seqno"))])]]
      [];
      SIf [] (EBin OEq "bool" (ELen (EVar "plaintext")) (EInt (0)))
      [SReturn [ENil; ENil]]
      [];
      SReturn [(EVar "plaintext"); ENil]].

(* saltpack.checkKnownVersion, encrypt.go *)
Definition f_saltpack_checkKnownVersion : gfunc := mkFunc "saltpack.checkKnownVersion" ["version"] []
     [SRange "_" "knownVersion" (ECall "KnownVersions" [])
      [SIf [] (EBin OEq "bool" (EVar "version") (EVar "knownVersion"))
      [SReturn [ENil]]
      []];
      SReturn [(ELit "ErrBadVersion" [("received", (EVar "version"))])]].

(* saltpack.nonceForSenderKeySecretBox, nonce.go *)
Definition f_saltpack_nonceForSenderKeySecretBox : gfunc := mkFunc "saltpack.nonceForSenderKeySecretBox" [] []
     [SReturn [(ECall "stringToByte24" [(EStr "saltpack_sender_key_sbox")])]].

(* saltpack.nonceForPayloadKeyBoxV2, nonce.go *)
Definition f_saltpack_nonceForPayloadKeyBoxV2 : gfunc := mkFunc "saltpack.nonceForPayloadKeyBoxV2" ["recip"] []
     [SAssign ["n"] [(ECall "make" [(EInt (24))])];
      SAssign ["off"] [(EInt (16))];
      SSliceCall "copyEqualSizeStr" "n" None (Some (EVar "off")) [(EStr "saltpack_recipsb")];
      SSliceCall "bigEndian.PutUint64" "n" (Some (EVar "off")) None [(EVar "recip")];
      SReturn [(EVar "n")]].

(* saltpack.nonceForPayloadKeyBox, nonce.go *)
Definition f_saltpack_nonceForPayloadKeyBox : gfunc := mkFunc "saltpack.nonceForPayloadKeyBox" ["version"; "recip"] []
     [SSwitch [] (Some (ESel (EVar "version") "Major"))
      [([(EInt (1))], [SReturn [(ECall "stringToByte24" [(EStr "saltpack_payload_key_box")])]]);
       ([(EInt (2))], [SReturn [(ECall "nonceForPayloadKeyBoxV2" [(EVar "recip")])]])]
      (Some [SPanic (EStr "panic")])].

(* saltpack.nonceForDerivedSharedKey, nonce.go *)
Definition f_saltpack_nonceForDerivedSharedKey : gfunc := mkFunc "saltpack.nonceForDerivedSharedKey" [] []
     [SReturn [(ECall "stringToByte24" [(EStr "saltpack_derived_sboxkey")])]].

(* saltpack.nonceForMACKeyBoxV1, nonce.go *)
Definition f_saltpack_nonceForMACKeyBoxV1 : gfunc := mkFunc "saltpack.nonceForMACKeyBoxV1" ["headerHash"] []
     [SReturn [(ECall "sliceToByte24" [(ESlice (EVar "headerHash") None (Some (EInt (24))))])]].

(* saltpack.nonceForMACKeyBoxV2, nonce.go *)
Definition f_saltpack_nonceForMACKeyBoxV2 : gfunc := mkFunc "saltpack.nonceForMACKeyBoxV2" ["headerHash"; "ephemeral"; "recip"] []
     [SAssign ["n"] [(ECall "make" [(EInt (24))])];
      SAssign ["off"] [(EInt (16))];
      SSliceCall "copyEqualSize" "n" None (Some (EVar "off")) [(ESlice (EVar "headerHash") None (Some (EVar "off")))];
      SIdxOp "n" (EBin OSub "int" (EVar "off") (EInt (1))) (Some OAndNot) (EInt (1));
      SIf [] (EVar "ephemeral")
      [SIdxOp "n" (EBin OSub "int" (EVar "off") (EInt (1))) (Some OBor) (EInt (1))]
      [];
      SSliceCall "bigEndian.PutUint64" "n" (Some (EVar "off")) None [(EVar "recip")];
      SReturn [(EVar "n")]].

(* saltpack.nonceForChunkSecretBox, nonce.go *)
Definition f_saltpack_nonceForChunkSecretBox : gfunc := mkFunc "saltpack.nonceForChunkSecretBox" ["i"] []
     [SAssign ["n"] [(ECall "make" [(EInt (24))])];
      SSliceCall "copyEqualSizeStr" "n" (Some (EInt (0))) (Some (EInt (16))) [(EStr "saltpack_ploadsb")];
      SSliceCall "bigEndian.PutUint64" "n" (Some (EInt (16))) None [(EConv "uint64" (EVar "i"))];
      SReturn [(EVar "n")]].

(* saltpack.nonceForChunkSigncryption, nonce.go *)
Definition f_saltpack_nonceForChunkSigncryption : gfunc := mkFunc "saltpack.nonceForChunkSigncryption" ["headerHash"; "isFinal"; "i"] []
     [SAssign ["n"] [(ECall "make" [(EInt (24))])];
      SAssign ["off"] [(EInt (16))];
      SSliceCall "copyEqualSize" "n" None (Some (EVar "off")) [(ESlice (EVar "headerHash") None (Some (EVar "off")))];
      SIdxOp "n" (EBin OSub "int" (EVar "off") (EInt (1))) (Some OAndNot) (EInt (1));
      SIf [] (EVar "isFinal")
      [SIdxOp "n" (EBin OSub "int" (EVar "off") (EInt (1))) (Some OBor) (EInt (1))]
      [];
      SSliceCall "bigEndian.PutUint64" "n" (Some (EVar "off")) None [(EConv "uint64" (EVar "i"))];
      SReturn [(EVar "n")]].

(* saltpack.EncryptionHeader_validate, packets.go *)
Definition f_saltpack_EncryptionHeader_validate : gfunc := mkFunc "saltpack.EncryptionHeader_validate" ["h"; "versionValidator"] []
     [SIf [] (EBin ONe "bool" (ESel (EVar "h") "FormatName") (EStr "saltpack"))
      [SReturn [(EErrVar "ErrNotASaltpackMessage")]]
      [];
      SIf [] (EBin ONe "bool" (ESel (EVar "h") "Type") (EInt (0)))
      [SReturn [(ELit "ErrWrongMessageType" [("Wanted", (EInt (0))); ("Received", (ESel (EVar "h") "Type"))])]]
      [];
      SReturn [(ECall "versionValidator" [(ESel (EVar "h") "Version")])]].

(* saltpack.SigncryptionHeader_validate, packets.go *)
Definition f_saltpack_SigncryptionHeader_validate : gfunc := mkFunc "saltpack.SigncryptionHeader_validate" ["h"] []
     [SIf [] (EBin ONe "bool" (ESel (EVar "h") "FormatName") (EStr "saltpack"))
      [SReturn [(EErrVar "ErrNotASaltpackMessage")]]
      [];
      SIf [] (EBin ONe "bool" (ESel (EVar "h") "Type") (EInt (3)))
      [SReturn [(ELit "ErrWrongMessageType" [("Wanted", (EInt (3))); ("Received", (ESel (EVar "h") "Type"))])]]
      [];
      SIf [] (EBin ONe "bool" (ESel (ESel (EVar "h") "Version") "Major") (ESel (ECall "Version2" []) "Major"))
      [SReturn [(ELit "ErrBadVersion" [("received", (ESel (EVar "h") "Version"))])]]
      [];
      SReturn [ENil]].

(* saltpack.SignatureHeader_validate, packets.go *)
Definition f_saltpack_SignatureHeader_validate : gfunc := mkFunc "saltpack.SignatureHeader_validate" ["h"; "versionValidator"; "msgType"] []
     [SIf [] (EBin ONe "bool" (ESel (EVar "h") "FormatName") (EStr "saltpack"))
      [SReturn [(EErrVar "ErrNotASaltpackMessage")]]
      [];
      SIf [SAssign ["err"] [(ECall "versionValidator" [(ESel (EVar "h") "Version")])]] (EBin ONe "bool" (EVar "err") ENil)
      [SReturn [(EVar "err")]]
      [];
      SIf [] (EBin ONe "bool" (ESel (EVar "h") "Type") (EVar "msgType"))
      [SReturn [(ELit "ErrWrongMessageType" [("Wanted", (EVar "msgType")); ("Received", (ESel (EVar "h") "Type"))])]]
      [];
      SIf [] (EBin OAnd "bool" (EBin ONe "bool" (EVar "msgType") (EInt (1))) (EBin ONe "bool" (EVar "msgType") (EInt (2))))
      [SReturn [(ELit "ErrInvalidParameter" [("message", (ECall "fmt.Sprintf" [(EStr "signature header must be MessageTypeAttachedSignature or MessageTypeDetachedSignature, not %d"); (EVar "msgType")]))])]]
      [];
      SReturn [ENil]].

(* saltpack.csprngUint32n, rand.go *)
Definition f_saltpack_csprngUint32n : gfunc := mkFunc "saltpack.csprngUint32n" ["csprng"; "n"] []
     [SAssign ["v"; "err"] [(ECall "csprngUint32" [(EVar "csprng")])];
      SIf [] (EBin ONe "bool" (EVar "err") ENil)
      [SReturn [(EInt (0)); (EVar "err")]]
      [];
      SAssign ["prod"] [(EBin OMul "uint64" (EConv "uint64" (EVar "v")) (EConv "uint64" (EVar "n")))];
      SAssign ["low"] [(EConv "uint32" (EVar "prod"))];
      SIf [] (EBin OLt "bool" (EVar "low") (EVar "n"))
      [SAssign ["thresh"] [(EBin OMod "uint32" (ENeg "uint32" (EVar "n")) (EVar "n"))];
      SFor (EBin OLt "bool" (EVar "low") (EVar "thresh"))
      [SAssign ["v"; "err"] [(ECall "csprngUint32" [(EVar "csprng")])];
      SIf [] (EBin ONe "bool" (EVar "err") ENil)
      [SReturn [(EInt (0)); (EVar "err")]]
      [];
      SAssign ["prod"] [(EBin OMul "uint64" (EConv "uint64" (EVar "v")) (EConv "uint64" (EVar "n")))];
      SAssign ["low"] [(EConv "uint32" (EVar "prod"))]]]
      [];
      SReturn [(EConv "uint32" (EBin OShr "uint64" (EVar "prod") (EInt (32)))); ENil]].

(* saltpack.signcryptOpenStream_processBlock, signcrypt_open.go *)
Definition f_saltpack_signcryptOpenStream_processBlock : gfunc := mkFunc "saltpack.signcryptOpenStream_processBlock" ["sos"; "payloadCiphertext"; "isFinal"; "seqno"] []
     [SAssign ["blockNum"] [(EConv "uint64" (EBin OSub "uint64" (EVar "seqno") (EInt (1))))];
      SIf [SAssign ["err"] [(ECall "encryptionBlockNumber.check" [(EVar "blockNum")])]] (EBin ONe "bool" (EVar "err") ENil)
      [SReturn [ENil; (EVar "err")]]
      [];
      SAssign ["nonce"] [(ECall "nonceForChunkSigncryption" [(ESel (EVar "sos") "headerHash"); (EVar "isFinal"); (EVar "blockNum")])];
      SAssign ["attachedSig"; "isValid"] [(ECall "secretbox.Open" [(ELit "[]byte" []); (EVar "payloadCiphertext"); (EVar "nonce"); (ESel (EVar "sos") "payloadKey")])];
      SIf [] (EBin OOr "bool" (ENot (EVar "isValid")) (EBin OLt "bool" (ELen (EVar "attachedSig")) (EInt (64))))
      [SReturn [ENil; (ELit "ErrBadCiphertext" [("0", (EVar "seqno"))])]]
      [];
      SAssign ["detachedSig"] [(ECall "sliceToByte64" [(ESlice (EVar "attachedSig") None (Some (EInt (64))))])];
      SAssign ["chunkPlaintext"] [(ESlice (EVar "attachedSig") (Some (EInt (64))) None)];
      SIf [] (ENot (ESel (EVar "sos") "senderAnonymous"))
      [SAssign ["signatureInput"] [(ECall "computeSigncryptionSignatureInput" [(ESel (EVar "sos") "headerHash"); (EVar "nonce"); (EVar "isFinal"); (EVar "chunkPlaintext")])];
      SAssign ["sigErr"] [(ECall "SigningPublicKey.Verify" [(ESel (EVar "sos") "signingPublicKey"); (EVar "signatureInput"); (ESlice (EVar "detachedSig") None None)])];
      SIf [] (EBin ONe "bool" (EVar "sigErr") ENil)
      [SReturn [ENil; (EErrVar "ErrBadSignature")]]
      []]
      [];
      SReturn [(EVar "chunkPlaintext"); ENil]].

(* saltpack.verifyStream_processBlock, verify_stream.go *)
Definition f_saltpack_verifyStream_processBlock : gfunc := mkFunc "saltpack.verifyStream_processBlock" ["v"; "signature"; "payloadChunk"; "isFinal"; "seqno"] []
     [SReturn [(ECall "SigningPublicKey.Verify" [(ESel (EVar "v") "publicKey"); (ECall "attachedSignatureInput" [(ESel (ESel (EVar "v") "header") "Version"); (ESel (EVar "v") "headerHash"); (EVar "payloadChunk"); (EBin OSub "uint64" (EVar "seqno") (EInt (1))); (EVar "isFinal")]); (EVar "signature")])]].

