(* GENERATED from /repo by harness/cmd/gen (goast.go) — do not edit.
   The bodies of the listed functions as terms of the deep embedding of model/GoLang.v. *)
From Coq Require Import List String ZArith.
From SP Require Import GoLang.
Import ListNotations.
Local Open Scope string_scope.
Local Open Scope Z_scope.

(* saltpack.decryptStream_getNextChunk, decrypt.go *)
Definition f_saltpack_decryptStream_getNextChunk : gfunc := mkFunc "saltpack.decryptStream_getNextChunk" ["ds"] []
     [SAssign ["ciphertext"; "authenticators"; "isFinal"; "seqno"; "err"] [(ECall "readEncryptionBlock" [(ESel (EVar "ds") "version"); (ESel (EVar "ds") "mps")])];
      SIf [] (EBin ONe "bool" (EVar "err") ENil)
      [SIf [] (EBin OEq "bool" (EVar "err") (EErrVar "io.EOF"))
      [SAssign ["err"] [(EErrVar "io.ErrUnexpectedEOF")]]
      [];
      SReturn [ENil; (EVar "err")]]
      [];
      SAssign ["chunk"; "err"] [(ECall "decryptStream.processBlock" [(EVar "ds"); (EVar "ciphertext"); (EVar "authenticators"); (EVar "isFinal"); (EVar "seqno")])];
      SIf [] (EBin ONe "bool" (EVar "err") ENil)
      [SReturn [ENil; (EVar "err")]]
      [];
      SAssign ["err"] [(ECall "checkDecodedChunkState" [(ESel (EVar "ds") "version"); (EVar "chunk"); (EVar "seqno"); (EVar "isFinal")])];
      SIf [] (EBin ONe "bool" (EVar "err") ENil)
      [SReturn [ENil; (EVar "err")]]
      [];
      SIf [] (EVar "isFinal")
      [SReturn [(EVar "chunk"); (ECall "assertEndOfStream" [(ESel (EVar "ds") "mps")])]]
      [];
      SReturn [(EVar "chunk"); ENil]].

(* saltpack.decryptStream_tryVisibleReceivers, decrypt.go *)
Definition f_saltpack_decryptStream_tryVisibleReceivers : gfunc := mkFunc "saltpack.decryptStream_tryVisibleReceivers" ["ds"; "hdr"; "ephemeralKey"] []
     [SVar "kids" "[][]byte";
      SAssign ["tab"] [(ECall "makemap" [])];
      SRange "i" "r" (ESel (EVar "hdr") "Receivers")
      [SIf [] (EBin ONe "bool" (ELen (ESel (EVar "r") "ReceiverKID")) (EInt (0)))
      [SAssignL [(LMapIndex (LVar "tab") (ELen (EVar "kids")))] [(EVar "i")];
      SAssign ["kids"] [(ECall "append" [(EVar "kids"); (ESel (EVar "r") "ReceiverKID")])]]
      []];
      SAssignL [(LField (LField (LVar "ds") "mki") "NamedReceivers")] [(EVar "kids")];
      SAssign ["i"; "sk"] [(ECall "Keyring.LookupBoxSecretKey" [(ESel (EVar "ds") "ring"); (EVar "kids")])];
      SIf [] (EBin OOr "bool" (EBin OLt "bool" (EVar "i") (EInt (0))) (EBin OEq "bool" (EVar "sk") ENil))
      [SReturn [ENil; ENil; (EInt (-1)); ENil]]
      [];
      SMapLookup "orig" "ok" (EVar "tab") (EVar "i");
      SIf [] (ENot (EVar "ok"))
      [SReturn [ENil; ENil; (EInt (-1)); (EErrVar "ErrBadLookup")]]
      [];
      SAssign ["nonce"] [(ECall "nonceForPayloadKeyBox" [(ESel (EVar "hdr") "Version"); (EConv "uint64" (EVar "orig"))])];
      SAssign ["payloadKeySlice"; "err"] [(ECall "BoxSecretKey.Unbox" [(EVar "sk"); (EVar "ephemeralKey"); (EVar "nonce"); (ESel (EIdx (ESel (EVar "hdr") "Receivers") (EVar "orig")) "PayloadKeyBox")])];
      SIf [] (EBin ONe "bool" (EVar "err") ENil)
      [SReturn [ENil; ENil; (EInt (-1)); (EVar "err")]]
      [];
      SAssign ["payloadKey"; "err"] [(ECall "symmetricKeyFromSlice" [(EVar "payloadKeySlice")])];
      SIf [] (EBin ONe "bool" (EVar "err") ENil)
      [SReturn [ENil; ENil; (EInt (-1)); (EVar "err")]]
      [];
      SReturn [(EVar "sk"); (EVar "payloadKey"); (EVar "orig"); (EVar "err")]].

(* saltpack.decryptStream_tryHiddenReceivers, decrypt.go *)
Definition f_saltpack_decryptStream_tryHiddenReceivers : gfunc := mkFunc "saltpack.decryptStream_tryHiddenReceivers" ["ds"; "hdr"; "ephemeralKey"] []
     [SAssign ["secretKeys"] [(ECall "Keyring.GetAllBoxSecretKeys" [(ESel (EVar "ds") "ring")])];
      SRange "_" "r" (ESel (EVar "hdr") "Receivers")
      [SIf [] (EBin OEq "bool" (ELen (ESel (EVar "r") "ReceiverKID")) (EInt (0)))
      [SOpAssignL (LField (LField (LVar "ds") "mki") "NumAnonReceivers") OAdd "int" (EInt 1)]
      []];
      SRange "_" "secretKey" (EVar "secretKeys")
      [SAssign ["shared"] [(ECall "BoxSecretKey.Precompute" [(EVar "secretKey"); (EVar "ephemeralKey")])];
      SRange "i" "r" (ESel (EVar "hdr") "Receivers")
      [SIf [] (EBin OEq "bool" (ELen (ESel (EVar "r") "ReceiverKID")) (EInt (0)))
      [SAssign ["nonce"] [(ECall "nonceForPayloadKeyBox" [(ESel (EVar "hdr") "Version"); (EConv "uint64" (EVar "i"))])];
      SAssign ["payloadKeySlice"; "err"] [(ECall "BoxPrecomputedSharedKey.Unbox" [(EVar "shared"); (EVar "nonce"); (ESel (EVar "r") "PayloadKeyBox")])];
      SIf [] (EBin ONe "bool" (EVar "err") ENil)
      [SContinue]
      [];
      SAssign ["payloadKey"; "err"] [(ECall "symmetricKeyFromSlice" [(EVar "payloadKeySlice")])];
      SIf [] (EBin ONe "bool" (EVar "err") ENil)
      [SReturn [ENil; ENil; (EInt (-1)); (EVar "err")]]
      [];
      SReturn [(EVar "secretKey"); (EVar "payloadKey"); (EVar "i"); ENil]]
      []]];
      SReturn [ENil; ENil; (EInt (-1)); ENil]].

(* saltpack.decryptStream_processHeader, decrypt.go *)
Definition f_saltpack_decryptStream_processHeader : gfunc := mkFunc "saltpack.decryptStream_processHeader" ["ds"; "hdr"] []
     [SIf [SAssign ["err"] [(ECall "EncryptionHeader.validate" [(EVar "hdr"); (ESel (EVar "ds") "versionValidator")])]] (EBin ONe "bool" (EVar "err") ENil)
      [SReturn [(EVar "err")]]
      [];
      SAssignL [(LField (LVar "ds") "version")] [(ESel (EVar "hdr") "Version")];
      SAssign ["ephemeralKey"] [(ECall "Keyring.ImportBoxEphemeralKey" [(ESel (EVar "ds") "ring"); (ESel (EVar "hdr") "Ephemeral")])];
      SIf [] (EBin OEq "bool" (EVar "ephemeralKey") ENil)
      [SReturn [(EErrVar "ErrBadEphemeralKey")]]
      [];
      SVar "secretKey" "BoxSecretKey";
      SVar "err" "error";
      SAssignL [(LVar "secretKey"); (LField (LVar "ds") "payloadKey"); (LField (LVar "ds") "position"); (LVar "err")] [(ECall "decryptStream.tryVisibleReceivers" [(EVar "ds"); (EVar "hdr"); (EVar "ephemeralKey")])];
      SIf [] (EBin ONe "bool" (EVar "err") ENil)
      [SReturn [(EVar "err")]]
      [];
      SIf [] (EBin OEq "bool" (EVar "secretKey") ENil)
      [SAssignL [(LVar "secretKey"); (LField (LVar "ds") "payloadKey"); (LField (LVar "ds") "position"); (LVar "err")] [(ECall "decryptStream.tryHiddenReceivers" [(EVar "ds"); (EVar "hdr"); (EVar "ephemeralKey")])];
      SAssignL [(LField (LField (LVar "ds") "mki") "ReceiverIsAnon")] [(EBool true)]]
      [];
      SIf [] (EBin ONe "bool" (EVar "err") ENil)
      [SReturn [(EVar "err")]]
      [];
      SIf [] (EBin OOr "bool" (EBin OEq "bool" (EVar "secretKey") ENil) (EBin OLt "bool" (ESel (EVar "ds") "position") (EInt (0))))
      [SReturn [(EErrVar "ErrNoDecryptionKey")]]
      [];
      SAssignL [(LField (LField (LVar "ds") "mki") "ReceiverKey")] [(EVar "secretKey")];
      SAssign ["nonce"] [(ECall "nonceForSenderKeySecretBox" [])];
      SAssign ["senderKeySlice"; "ok"] [(ECall "secretbox.Open" [(ELit "[]byte" []); (ESel (EVar "hdr") "SenderSecretbox"); (EVar "nonce"); (ESel (EVar "ds") "payloadKey")])];
      SIf [] (ENot (EVar "ok"))
      [SReturn [(EErrVar "ErrBadSenderKeySecretbox")]]
      [];
      SAssignL [(LField (LVar "ds") "senderKey"); (LVar "err")] [(ECall "rawBoxKeyFromSlice" [(EVar "senderKeySlice")])];
      SIf [] (EBin ONe "bool" (EVar "err") ENil)
      [SReturn [(EVar "err")]]
      [];
      SIf [] (ENot (ECall "hmac.Equal" [(ESel (EVar "hdr") "Ephemeral"); (ESlice (ESel (EVar "ds") "senderKey") None None)]))
      [SAssign ["longLivedSenderKey"] [(ECall "Keyring.LookupBoxPublicKey" [(ESel (EVar "ds") "ring"); (ESlice (ESel (EVar "ds") "senderKey") None None)])];
      SIf [] (EBin OEq "bool" (EVar "longLivedSenderKey") ENil)
      [SReturn [(ELit "ErrNoSenderKey" [("Sender", (ESlice (ESel (EVar "ds") "senderKey") None None))])]]
      [];
      SAssignL [(LField (LField (LVar "ds") "mki") "SenderKey")] [(EVar "longLivedSenderKey")]]
      [SAssignL [(LField (LField (LVar "ds") "mki") "SenderIsAnon")] [(EBool true)];
      SAssignL [(LField (LField (LVar "ds") "mki") "SenderKey")] [(EVar "ephemeralKey")]];
      SAssignL [(LField (LVar "ds") "macKey")] [(ECall "computeMACKeyReceiver" [(ESel (EVar "hdr") "Version"); (EConv "uint64" (ESel (EVar "ds") "position")); (EVar "secretKey"); (ESel (ESel (EVar "ds") "mki") "SenderKey"); (EVar "ephemeralKey"); (ESel (EVar "ds") "headerHash")])];
      SReturn [ENil]].

(* saltpack.rawBoxKeyFromSlice, key.go *)
Definition f_saltpack_rawBoxKeyFromSlice : gfunc := mkFunc "saltpack.rawBoxKeyFromSlice" ["slice"] []
     [SAssign ["result"] [(ECall "make" [(EInt (32))])];
      SIf [] (EBin ONe "bool" (ELen (EVar "slice")) (EInt (32)))
      [SReturn [ENil; (EErrVar "ErrBadBoxKey")]]
      [];
      SAssign ["result"] [(ECall "sliceToByte32" [(EVar "slice")])];
      SReturn [(EAddr "result"); ENil]].

(* saltpack.symmetricKeyFromSlice, key.go *)
Definition f_saltpack_symmetricKeyFromSlice : gfunc := mkFunc "saltpack.symmetricKeyFromSlice" ["slice"] []
     [SAssign ["result"] [(ECall "make" [(EInt (32))])];
      SIf [] (EBin ONe "bool" (ELen (EVar "slice")) (EInt (32)))
      [SReturn [ENil; (EErrVar "ErrBadSymmetricKey")]]
      [];
      SAssign ["result"] [(ECall "sliceToByte32" [(EVar "slice")])];
      SReturn [(EAddr "result"); ENil]].

(* saltpack.signcryptOpenStream_getNextChunk, signcrypt_open.go *)
Definition f_saltpack_signcryptOpenStream_getNextChunk : gfunc := mkFunc "saltpack.signcryptOpenStream_getNextChunk" ["sos"] []
     [SVar "sb" "signcryptionBlock";
      SAssign ["seqno"; "err"] [(ECall "msgpackStream.Read" [(ESel (EVar "sos") "mps"); (EAddr "sb")])];
      SIf [] (EBin ONe "bool" (EVar "err") ENil)
      [SIf [] (EBin OEq "bool" (EVar "err") (EErrVar "io.EOF"))
      [SAssign ["err"] [(EErrVar "io.ErrUnexpectedEOF")]]
      [];
      SReturn [ENil; (EVar "err")]]
      [];
      SAssign ["chunk"; "err"] [(ECall "signcryptOpenStream.processBlock" [(EVar "sos"); (ESel (EVar "sb") "PayloadCiphertext"); (ESel (EVar "sb") "IsFinal"); (EVar "seqno")])];
      SIf [] (EBin ONe "bool" (EVar "err") ENil)
      [SReturn [ENil; (EVar "err")]]
      [];
      SAssign ["err"] [(ECall "checkDecodedChunkState" [(ECall "Version2" []); (EVar "chunk"); (EVar "seqno"); (ESel (EVar "sb") "IsFinal")])];
      SIf [] (EBin ONe "bool" (EVar "err") ENil)
      [SReturn [ENil; (EVar "err")]]
      [];
      SIf [] (ESel (EVar "sb") "IsFinal")
      [SReturn [(EVar "chunk"); (ECall "assertEndOfStream" [(ESel (EVar "sos") "mps")])]]
      [];
      SReturn [(EVar "chunk"); ENil]].

(* saltpack.signcryptOpenStream_tryBoxSecretKeys, signcrypt_open.go *)
Definition f_saltpack_signcryptOpenStream_tryBoxSecretKeys : gfunc := mkFunc "saltpack.signcryptOpenStream_tryBoxSecretKeys" ["sos"; "hdr"; "ephemeralPub"] []
     [SAssign ["derivedKeys"] [(ECall "makemap" [])];
      SRange "_" "receiverBoxSecretKey" (ECall "SigncryptKeyring.GetAllBoxSecretKeys" [(ESel (EVar "sos") "keyring")])
      [SAssign ["derivedKey"] [(ECall "derivedEphemeralKeyFromBoxKeys" [(EVar "ephemeralPub"); (EVar "receiverBoxSecretKey")])];
      SAssign ["derivedKeys"] [(ECall "append" [(EVar "derivedKeys"); (EVar "derivedKey")])]];
      SRange "receiverIndex" "receiver" (ESel (EVar "hdr") "Receivers")
      [SRange "_" "derivedKey" (EVar "derivedKeys")
      [SAssign ["identifier"] [(ECall "keyIdentifierFromDerivedKey" [(EVar "derivedKey"); (EConv "uint64" (EVar "receiverIndex"))])];
      SIf [] (ECall "hmac.Equal" [(EVar "identifier"); (ESel (EVar "receiver") "ReceiverKID")])
      [SAssign ["nonce"] [(ECall "nonceForPayloadKeyBoxV2" [(EConv "uint64" (EVar "receiverIndex"))])];
      SAssign ["payloadKey"; "isValid"] [(ECall "secretbox.Open" [ENil; (ESel (EVar "receiver") "PayloadKeyBox"); (EVar "nonce"); (EVar "derivedKey")])];
      SIf [] (ENot (EVar "isValid"))
      [SReturn [ENil; (EErrVar "ErrDecryptionFailed")]]
      [];
      SAssign ["r'0"; "r'1"] [(ECall "symmetricKeyFromSlice" [(EVar "payloadKey")])];
      SReturn [(EVar "r'0"); (EVar "r'1")]]
      []]];
      SReturn [ENil; ENil]].

(* saltpack.signcryptOpenStream_trySharedSymmetricKeys, signcrypt_open.go *)
Definition f_saltpack_signcryptOpenStream_trySharedSymmetricKeys : gfunc := mkFunc "saltpack.signcryptOpenStream_trySharedSymmetricKeys" ["sos"; "hdr"; "ephemeralPub"] []
     [SAssign ["identifiers"] [(ECall "makemap" [])];
      SRange "_" "receiver" (ESel (EVar "hdr") "Receivers")
      [SAssign ["identifiers"] [(ECall "append" [(EVar "identifiers"); (ESel (EVar "receiver") "ReceiverKID")])]];
      SIf [] (EBin OEq "bool" (ESel (EVar "sos") "resolver") ENil)
      [SReturn [ENil; ENil]]
      [];
      SAssign ["resolvedKeys"; "err"] [(ECall "SymmetricKeyResolver.ResolveKeys" [(ESel (EVar "sos") "resolver"); (EVar "identifiers")])];
      SIf [] (EBin ONe "bool" (EVar "err") ENil)
      [SReturn [ENil; (EVar "err")]]
      [];
      SIf [] (EBin ONe "bool" (ELen (EVar "resolvedKeys")) (ELen (EVar "identifiers")))
      [SReturn [ENil; (EErrVar "ErrWrongNumberOfKeys")]]
      [];
      SRange "index" "resolved" (EVar "resolvedKeys")
      [SIf [] (EBin OEq "bool" (EVar "resolved") ENil)
      [SContinue]
      [];
      SAssign ["derivedKeyDigest"] [(ECall "hmac.New" [(EPkg "sha512.New"); (EConv "[]byte" (EStr "saltpack signcryption derived symmetric key"))])];
      SAssign ["_"; "err"] [(ECall "Hash.Write" [(EVar "derivedKeyDigest"); (ECall "BoxPublicKey.ToKID" [(EVar "ephemeralPub")])])];
      SIf [] (EBin ONe "bool" (EVar "err") ENil)
      [SReturn [ENil; (EVar "err")]]
      [];
      SAssign ["_"; "err"] [(ECall "Hash.Write" [(EVar "derivedKeyDigest"); (ESlice (EVar "resolved") None None)])];
      SIf [] (EBin ONe "bool" (EVar "err") ENil)
      [SReturn [ENil; (EVar "err")]]
      [];
      SAssign ["derivedKey"; "err"] [(ECall "rawBoxKeyFromSlice" [(ESlice (ECall "Hash.Sum" [(EVar "derivedKeyDigest"); ENil]) (Some (EInt (0))) (Some (EInt (32))))])];
      SIf [] (EBin ONe "bool" (EVar "err") ENil)
      [SPanic (EStr "panic")]
      [];
      SAssign ["nonce"] [(ECall "nonceForPayloadKeyBoxV2" [(EConv "uint64" (EVar "index"))])];
      SAssign ["payloadKey"; "isValid"] [(ECall "secretbox.Open" [ENil; (ESel (EIdx (ESel (EVar "hdr") "Receivers") (EVar "index")) "PayloadKeyBox"); (EVar "nonce"); (EVar "derivedKey")])];
      SIf [] (ENot (EVar "isValid"))
      [SReturn [ENil; (EErrVar "ErrDecryptionFailed")]]
      [];
      SAssign ["r'0"; "r'1"] [(ECall "symmetricKeyFromSlice" [(EVar "payloadKey")])];
      SReturn [(EVar "r'0"); (EVar "r'1")]];
      SReturn [ENil; ENil]].

(* saltpack.signcryptOpenStream_processHeader, signcrypt_open.go *)
Definition f_saltpack_signcryptOpenStream_processHeader : gfunc := mkFunc "saltpack.signcryptOpenStream_processHeader" ["sos"; "hdr"] []
     [SIf [SAssign ["err"] [(ECall "SigncryptionHeader.validate" [(EVar "hdr")])]] (EBin ONe "bool" (EVar "err") ENil)
      [SReturn [(EVar "err")]]
      [];
      SAssign ["ephemeralPub"] [(ECall "SigncryptKeyring.ImportBoxEphemeralKey" [(ESel (EVar "sos") "keyring"); (ESel (EVar "hdr") "Ephemeral")])];
      SIf [] (EBin OEq "bool" (EVar "ephemeralPub") ENil)
      [SReturn [(EErrVar "ErrBadEphemeralKey")]]
      [];
      SVar "err" "error";
      SAssignL [(LField (LVar "sos") "payloadKey"); (LVar "err")] [(ECall "signcryptOpenStream.tryBoxSecretKeys" [(EVar "sos"); (EVar "hdr"); (EVar "ephemeralPub")])];
      SIf [] (EBin ONe "bool" (EVar "err") ENil)
      [SReturn [(EVar "err")]]
      [];
      SIf [] (EBin OEq "bool" (ESel (EVar "sos") "payloadKey") ENil)
      [SAssignL [(LField (LVar "sos") "payloadKey"); (LVar "err")] [(ECall "signcryptOpenStream.trySharedSymmetricKeys" [(EVar "sos"); (EVar "hdr"); (EVar "ephemeralPub")])];
      SIf [] (EBin ONe "bool" (EVar "err") ENil)
      [SReturn [(EVar "err")]]
      []]
      [];
      SIf [] (EBin OEq "bool" (ESel (EVar "sos") "payloadKey") ENil)
      [SReturn [(EErrVar "ErrNoDecryptionKey")]]
      [];
      SAssign ["nonce"] [(ECall "nonceForSenderKeySecretBox" [])];
      SAssign ["senderKeySlice"; "ok"] [(ECall "secretbox.Open" [(ELit "[]byte" []); (ESel (EVar "hdr") "SenderSecretbox"); (EVar "nonce"); (ESel (EVar "sos") "payloadKey")])];
      SIf [] (ENot (EVar "ok"))
      [SReturn [(EErrVar "ErrBadSenderKeySecretbox")]]
      [];
      SAssign ["zeroSlice"] [(ECall "make" [(ELen (EVar "senderKeySlice"))])];
      SIf [] (ECall "bytes.Equal" [(EVar "zeroSlice"); (EVar "senderKeySlice")])
      [SAssignL [(LField (LVar "sos") "senderAnonymous")] [(EBool true)]]
      [SAssign ["spk"] [(ECall "SigncryptKeyring.LookupSigningPublicKey" [(ESel (EVar "sos") "keyring"); (EVar "senderKeySlice")])];
      SIf [] (EBin OEq "bool" (EVar "spk") ENil)
      [SReturn [(ELit "ErrNoSenderKey" [("Sender", (EVar "senderKeySlice"))])]]
      [];
      SAssignL [(LField (LVar "sos") "signingPublicKey")] [(EVar "spk")]];
      SReturn [ENil]].

(* saltpack.verifyStream_getNextChunk, verify_stream.go *)
Definition f_saltpack_verifyStream_getNextChunk : gfunc := mkFunc "saltpack.verifyStream_getNextChunk" ["v"] []
     [SAssign ["signature"; "chunk"; "isFinal"; "seqno"; "err"] [(ECall "readSignatureBlock" [(ESel (ESel (EVar "v") "header") "Version"); (ESel (EVar "v") "mps")])];
      SIf [] (EBin ONe "bool" (EVar "err") ENil)
      [SIf [] (EBin OEq "bool" (EVar "err") (EErrVar "io.EOF"))
      [SAssign ["err"] [(EErrVar "io.ErrUnexpectedEOF")]]
      [];
      SReturn [ENil; (EVar "err")]]
      [];
      SAssign ["err"] [(ECall "verifyStream.processBlock" [(EVar "v"); (EVar "signature"); (EVar "chunk"); (EVar "isFinal"); (EVar "seqno")])];
      SIf [] (EBin ONe "bool" (EVar "err") ENil)
      [SReturn [ENil; (EVar "err")]]
      [];
      SAssign ["err"] [(ECall "checkDecodedChunkState" [(ESel (ESel (EVar "v") "header") "Version"); (EVar "chunk"); (EVar "seqno"); (EVar "isFinal")])];
      SIf [] (EBin ONe "bool" (EVar "err") ENil)
      [SReturn [ENil; (EVar "err")]]
      [];
      SIf [] (EVar "isFinal")
      [SReturn [(EVar "chunk"); (ECall "assertEndOfStream" [(ESel (EVar "v") "mps")])]]
      [];
      SReturn [(EVar "chunk"); ENil]].

(* saltpack.verifyStream_readHeader, verify_stream.go *)
Definition f_saltpack_verifyStream_readHeader : gfunc := mkFunc "saltpack.verifyStream_readHeader" ["v"; "versionValidator"; "msgType"] []
     [SVar "headerBytes" "[]byte";
      SAssign ["_"; "err"] [(ECall "msgpackStream.Read" [(ESel (EVar "v") "mps"); (EAddr "headerBytes")])];
      SIf [] (EBin ONe "bool" (EVar "err") ENil)
      [SReturn [(EErrVar "ErrFailedToReadHeaderBytes")]]
      [];
      SAssignL [(LField (LVar "v") "headerHash")] [(ECall "hashHeader" [(EVar "headerBytes")])];
      SVar "header" "SignatureHeader";
      SAssign ["err"] [(ECall "decodeFromBytes" [(EAddr "header"); (EVar "headerBytes")])];
      SIf [] (EBin ONe "bool" (EVar "err") ENil)
      [SReturn [(EVar "err")]]
      [];
      SIf [SAssign ["err"] [(ECall "SignatureHeader.validate" [(EVar "header"); (EVar "versionValidator"); (EVar "msgType")])]] (EBin ONe "bool" (EVar "err") ENil)
      [SReturn [(EVar "err")]]
      [];
      SAssignL [(LField (LVar "v") "header")] [(EAddr "header")];
      SReturn [ENil]].

