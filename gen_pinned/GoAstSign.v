(* GENERATED from /repo by harness/cmd/gen (goast.go) — do not edit.
   The bodies of the listed functions as terms of the deep embedding of model/GoLang.v. *)
From Coq Require Import List String ZArith.
From SP Require Import GoLang.
Import ListNotations.
Local Open Scope string_scope.
Local Open Scope Z_scope.

(* saltpack.newSignAttachedStream, sign_stream.go *)
Definition f_saltpack_newSignAttachedStream : gfunc := mkFunc "saltpack.newSignAttachedStream" ["version"; "w"; "signer"] []
     [SIf [SAssign ["err"] [(ECall "checkKnownVersion" [(EVar "version")])]] (EBin ONe "bool" (EVar "err") ENil)
      [SReturn [ENil; (EVar "err")]]
      [];
      SIf [] (EBin OEq "bool" (EVar "signer") ENil)
      [SReturn [ENil; (ELit "ErrInvalidParameter" [("message", (EStr "no signing key provided"))])]]
      [];
      SAssign ["header"; "err"] [(ECall "newSignatureHeader" [(EVar "version"); (ECall "SigningSecretKey.GetPublicKey" [(EVar "signer")]); (EInt (1))])];
      SIf [] (EBin ONe "bool" (EVar "err") ENil)
      [SReturn [ENil; (EVar "err")]]
      [];
      SAssign ["headerBytes"; "err"] [(ECall "encodeToBytes" [(EVar "header")])];
      SIf [] (EBin ONe "bool" (EVar "err") ENil)
      [SReturn [ENil; (EVar "err")]]
      [];
      SAssign ["headerHash"] [(ECall "hashHeader" [(EVar "headerBytes")])];
      SAssign ["stream"] [(ELit "signAttachedStream" [("version", (EVar "version")); ("headerHash", (EVar "headerHash")); ("encoder", (ECall "newEncoder" [(EVar "w")])); ("secretKey", (EVar "signer")); ("seqno", (EInt (0)))])];
      SAssign ["err"] [(ECall "encoder.Encode" [(ESel (EVar "stream") "encoder"); (EVar "headerBytes")])];
      SIf [] (EBin ONe "bool" (EVar "err") ENil)
      [SReturn [ENil; (EVar "err")]]
      [];
      SReturn [(EVar "stream"); ENil]].

(* saltpack.signAttachedStream_Write, sign_stream.go *)
Definition f_saltpack_signAttachedStream_Write : gfunc := mkFunc "saltpack.signAttachedStream_Write" ["s"; "p"] []
     [SAssign ["n"; "err"] [(ECall "Buffer.Write" [(ESel (EVar "s") "buffer"); (EVar "p")])];
      SIf [] (EBin ONe "bool" (EVar "err") ENil)
      [SReturn [(EInt (0)); (EVar "err")]]
      [];
      SFor (EBin OGt "bool" (ECall "Buffer.Len" [(ESel (EVar "s") "buffer")]) (EInt (1048576)))
      [SIf [SAssign ["err"] [(ECall "signAttachedStream.signBlock" [(EVar "s"); (EBool false)])]] (EBin ONe "bool" (EVar "err") ENil)
      [SReturn [(EInt (0)); (EVar "err")]]
      []];
      SReturn [(EVar "n"); ENil]].

(* saltpack.signAttachedStream_Close, sign_stream.go *)
Definition f_saltpack_signAttachedStream_Close : gfunc := mkFunc "saltpack.signAttachedStream_Close" ["s"] []
     [SSwitch [] (Some (ESel (EVar "s") "version"))
      [([(ECall "Version1" [])], [SIf [] (EBin OGt "bool" (ECall "Buffer.Len" [(ESel (EVar "s") "buffer")]) (EInt (0)))
      [SIf [SAssign ["err"] [(ECall "signAttachedStream.signBlock" [(EVar "s"); (EBool false)])]] (EBin ONe "bool" (EVar "err") ENil)
      [SReturn [(EVar "err")]]
      []]
      [];
      SIf [] (EBin OGt "bool" (ECall "Buffer.Len" [(ESel (EVar "s") "buffer")]) (EInt (0)))
      [SPanic (EStr "panic")]
      [];
      SAssign ["r'0"] [(ECall "signAttachedStream.signBlock" [(EVar "s"); (EBool true)])];
      SReturn [(EVar "r'0")]]);
       ([(ECall "Version2" [])], [SIf [SAssign ["err"] [(ECall "signAttachedStream.signBlock" [(EVar "s"); (EBool true)])]] (EBin ONe "bool" (EVar "err") ENil)
      [SReturn [(EVar "err")]]
      [];
      SIf [] (EBin OGt "bool" (ECall "Buffer.Len" [(ESel (EVar "s") "buffer")]) (EInt (0)))
      [SPanic (EStr "panic")]
      [];
      SReturn [ENil]])]
      (Some [SPanic (EStr "panic")])].

(* saltpack.makeSignatureBlock, sign_stream.go *)
Definition f_saltpack_makeSignatureBlock : gfunc := mkFunc "saltpack.makeSignatureBlock" ["version"; "sig"; "chunk"; "isFinal"] []
     [SAssign ["sbV1"] [(ELit "signatureBlockV1" [("Signature", (EVar "sig")); ("PayloadChunk", (EVar "chunk"))])];
      SSwitch [] (Some (EVar "version"))
      [([(ECall "Version1" [])], [SReturn [(EVar "sbV1")]]);
       ([(ECall "Version2" [])], [SReturn [(ELit "signatureBlockV2" [("signatureBlockV1", (EVar "sbV1")); ("IsFinal", (EVar "isFinal"))])]])]
      (Some [SPanic (EStr "panic")])].

(* saltpack.checkSignBlockRead, sign_stream.go *)
Definition f_saltpack_checkSignBlockRead : gfunc := mkFunc "saltpack.checkSignBlockRead" ["version"; "isFinal"; "blockSize"; "chunkLen"; "bufLen"] []
     [SAssign ["die"] [(EUnsup "*ast.FuncLit")];
      SIf [] (EBin OGt "bool" (EVar "chunkLen") (EVar "blockSize"))
      [SExpr (ECall "die" [])]
      [];
      SIf [] (EBin OAnd "bool" (EBin OLt "bool" (EVar "chunkLen") (EVar "blockSize")) (EBin OGt "bool" (EVar "bufLen") (EInt (0))))
      [SExpr (ECall "die" [])]
      [];
      SSwitch [] (Some (EVar "version"))
      [([(ECall "Version1" [])], [SIf [] (EBin ONe "bool" (EVar "isFinal") (EBin OEq "bool" (EVar "chunkLen") (EInt (0))))
      [SExpr (ECall "die" [])]
      []]);
       ([(ECall "Version2" [])], [SIf [] (EBin OAnd "bool" (EVar "isFinal") (EBin ONe "bool" (EVar "bufLen") (EInt (0))))
      [SExpr (ECall "die" [])]
      []])]
      (Some [SPanic (EStr "panic")])].

(* saltpack.signAttachedStream_signBlock, sign_stream.go *)
Definition f_saltpack_signAttachedStream_signBlock : gfunc := mkFunc "saltpack.signAttachedStream_signBlock" ["s"; "isFinal"] []
     [SAssign ["chunk"] [(ECall "Buffer.Next" [(ESel (EVar "s") "buffer"); (EInt (1048576))])];
      SIf [] (EBin OEq "bool" (EVar "chunk") ENil)
      [SAssign ["chunk"] [(ELit "[]byte" [])]]
      [];
      SExpr (ECall "checkSignBlockRead" [(ESel (EVar "s") "version"); (EVar "isFinal"); (EInt (1048576)); (ELen (EVar "chunk")); (ECall "Buffer.Len" [(ESel (EVar "s") "buffer")])]);
      SAssign ["sig"; "err"] [(ECall "signAttachedStream.computeSig" [(EVar "s"); (EVar "chunk"); (ESel (EVar "s") "seqno"); (EVar "isFinal")])];
      SIf [] (EBin ONe "bool" (EVar "err") ENil)
      [SReturn [(EVar "err")]]
      [];
      SExpr (ECall "assertEncodedChunkState" [(ESel (EVar "s") "version"); (EVar "chunk"); (EInt (0)); (EConv "uint64" (ESel (EVar "s") "seqno")); (EVar "isFinal")]);
      SAssign ["sBlock"] [(ECall "makeSignatureBlock" [(ESel (EVar "s") "version"); (EVar "sig"); (EVar "chunk"); (EVar "isFinal")])];
      SIf [SAssign ["err"] [(ECall "encoder.Encode" [(ESel (EVar "s") "encoder"); (EVar "sBlock")])]] (EBin ONe "bool" (EVar "err") ENil)
      [SReturn [(EVar "err")]]
      [];
      SOpAssignL (LField (LVar "s") "seqno") OAdd "uint64" (EInt 1);
      SReturn [ENil]].

(* saltpack.signAttachedStream_computeSig, sign_stream.go *)
Definition f_saltpack_signAttachedStream_computeSig : gfunc := mkFunc "saltpack.signAttachedStream_computeSig" ["s"; "payloadChunk"; "seqno"; "isFinal"] []
     [SAssign ["r'0"; "r'1"] [(ECall "SigningSecretKey.Sign" [(ESel (EVar "s") "secretKey"); (ECall "attachedSignatureInput" [(ESel (EVar "s") "version"); (ESel (EVar "s") "headerHash"); (EVar "payloadChunk"); (EVar "seqno"); (EVar "isFinal")])])];
      SReturn [(EVar "r'0"); (EVar "r'1")]].

(* saltpack.newSignDetachedStream, sign_stream.go *)
Definition f_saltpack_newSignDetachedStream : gfunc := mkFunc "saltpack.newSignDetachedStream" ["version"; "w"; "signer"] []
     [SIf [SAssign ["err"] [(ECall "checkKnownVersion" [(EVar "version")])]] (EBin ONe "bool" (EVar "err") ENil)
      [SReturn [ENil; (EVar "err")]]
      [];
      SIf [] (EBin OEq "bool" (EVar "signer") ENil)
      [SReturn [ENil; (ELit "ErrInvalidParameter" [("message", (EStr "no signing key provided"))])]]
      [];
      SAssign ["header"; "err"] [(ECall "newSignatureHeader" [(EVar "version"); (ECall "SigningSecretKey.GetPublicKey" [(EVar "signer")]); (EInt (2))])];
      SIf [] (EBin ONe "bool" (EVar "err") ENil)
      [SReturn [ENil; (EVar "err")]]
      [];
      SAssign ["headerBytes"; "err"] [(ECall "encodeToBytes" [(EVar "header")])];
      SIf [] (EBin ONe "bool" (EVar "err") ENil)
      [SReturn [ENil; (EVar "err")]]
      [];
      SAssign ["headerHash"] [(ECall "hashHeader" [(EVar "headerBytes")])];
      SAssign ["stream"] [(ELit "signDetachedStream" [("encoder", (ECall "newEncoder" [(EVar "w")])); ("secretKey", (EVar "signer")); ("hasher", (ECall "sha512.New" []))])];
      SAssign ["err"] [(ECall "encoder.Encode" [(ESel (EVar "stream") "encoder"); (EVar "headerBytes")])];
      SIf [] (EBin ONe "bool" (EVar "err") ENil)
      [SReturn [ENil; (EVar "err")]]
      [];
      SAssign ["_"; "err"] [(ECall "Hash.Write" [(ESel (EVar "stream") "hasher"); (ESlice (EVar "headerHash") None None)])];
      SIf [] (EBin ONe "bool" (EVar "err") ENil)
      [SReturn [ENil; (EVar "err")]]
      [];
      SReturn [(EVar "stream"); ENil]].

(* saltpack.signDetachedStream_Write, sign_stream.go *)
Definition f_saltpack_signDetachedStream_Write : gfunc := mkFunc "saltpack.signDetachedStream_Write" ["s"; "p"] []
     [SAssign ["r'0"; "r'1"] [(ECall "Hash.Write" [(ESel (EVar "s") "hasher"); (EVar "p")])];
      SReturn [(EVar "r'0"); (EVar "r'1")]].

(* saltpack.signDetachedStream_Close, sign_stream.go *)
Definition f_saltpack_signDetachedStream_Close : gfunc := mkFunc "saltpack.signDetachedStream_Close" ["s"] []
     [SAssign ["signature"; "err"] [(ECall "SigningSecretKey.Sign" [(ESel (EVar "s") "secretKey"); (ECall "detachedSignatureInputFromHash" [(ECall "Hash.Sum" [(ESel (EVar "s") "hasher"); ENil])])])];
      SIf [] (EBin ONe "bool" (EVar "err") ENil)
      [SReturn [(EVar "err")]]
      [];
      SReturn [(ECall "encoder.Encode" [(ESel (EVar "s") "encoder"); (EVar "signature")])]].

(* saltpack.signcryptSealStream_Write, signcrypt_seal.go *)
Definition f_saltpack_signcryptSealStream_Write : gfunc := mkFunc "saltpack.signcryptSealStream_Write" ["sss"; "plaintext"] []
     [SIf [] (EBin ONe "bool" (ESel (EVar "sss") "err") ENil)
      [SReturn [(EInt (0)); (ESel (EVar "sss") "err")]]
      [];
      SVar "ret" "int";
      SIf [SAssignL [(LVar "ret"); (LField (LVar "sss") "err")] [(ECall "Buffer.Write" [(ESel (EVar "sss") "buffer"); (EVar "plaintext")])]] (EBin ONe "bool" (ESel (EVar "sss") "err") ENil)
      [SReturn [(EInt (0)); (ESel (EVar "sss") "err")]]
      [];
      SFor (EBin OGt "bool" (ECall "Buffer.Len" [(ESel (EVar "sss") "buffer")]) (EInt (1048576)))
      [SAssignL [(LField (LVar "sss") "err")] [(ECall "signcryptSealStream.signcryptBlock" [(EVar "sss"); (EBool false)])];
      SIf [] (EBin ONe "bool" (ESel (EVar "sss") "err") ENil)
      [SReturn [(EInt (0)); (ESel (EVar "sss") "err")]]
      []];
      SReturn [(EVar "ret"); ENil]].

(* saltpack.signcryptSealStream_signcryptBlock, signcrypt_seal.go *)
Definition f_saltpack_signcryptSealStream_signcryptBlock : gfunc := mkFunc "saltpack.signcryptSealStream_signcryptBlock" ["sss"; "isFinal"] []
     [SAssign ["plaintext"] [(ECall "Buffer.Next" [(ESel (EVar "sss") "buffer"); (EInt (1048576))])];
      SIf [] (EBin OAnd "bool" (EVar "isFinal") (EBin ONe "bool" (ECall "Buffer.Len" [(ESel (EVar "sss") "buffer")]) (EInt (0))))
      [SPanic (EStr "panic")]
      [];
      SIf [SAssign ["err"] [(ECall "encryptionBlockNumber.check" [(ESel (EVar "sss") "numBlocks")])]] (EBin ONe "bool" (EVar "err") ENil)
      [SReturn [(EVar "err")]]
      [];
      SAssign ["nonce"] [(ECall "nonceForChunkSigncryption" [(ESel (EVar "sss") "headerHash"); (EVar "isFinal"); (ESel (EVar "sss") "numBlocks")])];
      SVar "detachedSig" "[]byte";
      SIf [] (EBin OEq "bool" (ESel (EVar "sss") "signingKey") ENil)
      [SAssign ["detachedSig"] [(ECall "make" [(EInt (64))])]]
      [SAssign ["signatureInput"] [(ECall "computeSigncryptionSignatureInput" [(ESel (EVar "sss") "headerHash"); (EVar "nonce"); (EVar "isFinal"); (EVar "plaintext")])];
      SVar "err" "error";
      SAssign ["detachedSig"; "err"] [(ECall "SigningSecretKey.Sign" [(ESel (EVar "sss") "signingKey"); (EVar "signatureInput")])];
      SIf [] (EBin ONe "bool" (EVar "err") ENil)
      [SReturn [(EVar "err")]]
      []];
      SAssign ["attachedSig"] [(EVar "detachedSig")];
      SAssign ["attachedSig"] [(ECall "append..." [(EVar "attachedSig"); (EVar "plaintext")])];
      SAssign ["ciphertext"] [(ECall "secretbox.Seal" [(ELit "[]byte" []); (EVar "attachedSig"); (EVar "nonce"); (ESel (EVar "sss") "encryptionKey")])];
      SExpr (ECall "assertEncodedChunkState" [(ESel (EVar "sss") "version"); (EVar "ciphertext"); (EInt (16)); (EConv "uint64" (ESel (EVar "sss") "numBlocks")); (EVar "isFinal")]);
      SAssign ["block"] [(ELit "signcryptionBlock" [("PayloadCiphertext", (EVar "ciphertext")); ("IsFinal", (EVar "isFinal"))])];
      SIf [SAssign ["err"] [(ECall "encoder.Encode" [(ESel (EVar "sss") "encoder"); (EVar "block")])]] (EBin ONe "bool" (EVar "err") ENil)
      [SReturn [(EVar "err")]]
      [];
      SOpAssignL (LField (LVar "sss") "numBlocks") OAdd "uint64" (EInt 1);
      SReturn [ENil]].

(* saltpack.derivedEphemeralKeyFromBoxKeys, signcrypt_seal.go *)
Definition f_saltpack_derivedEphemeralKeyFromBoxKeys : gfunc := mkFunc "saltpack.derivedEphemeralKeyFromBoxKeys" ["public"; "private"] []
     [SAssign ["sharedSecretBox"] [(ECall "BoxSecretKey.Box" [(EVar "private"); (EVar "public"); (ECall "nonceForDerivedSharedKey" []); (ECall "make" [(EInt (32))])])];
      SAssign ["derivedKey"; "err"] [(ECall "symmetricKeyFromSlice" [(ESlice (EVar "sharedSecretBox") (Some (EBin OSub "int" (ELen (EVar "sharedSecretBox")) (EInt (32)))) None)])];
      SIf [] (EBin ONe "bool" (EVar "err") ENil)
      [SPanic (EStr "panic")]
      [];
      SReturn [(EVar "derivedKey")]].

(* saltpack.keyIdentifierFromDerivedKey, signcrypt_seal.go *)
Definition f_saltpack_keyIdentifierFromDerivedKey : gfunc := mkFunc "saltpack.keyIdentifierFromDerivedKey" ["derivedKey"; "recipientIndex"] []
     [SAssign ["keyIdentifierDigest"] [(ECall "hmac.New" [(EPkg "sha512.New"); (EConv "[]byte" (EStr "saltpack signcryption box key identifier"))])];
      SAssign ["_"; "_"] [(ECall "Hash.Write" [(EVar "keyIdentifierDigest"); (ESlice (EVar "derivedKey") None None)])];
      SAssign ["nonce"] [(ECall "nonceForPayloadKeyBoxV2" [(EVar "recipientIndex")])];
      SAssign ["_"; "_"] [(ECall "Hash.Write" [(EVar "keyIdentifierDigest"); (ESlice (EVar "nonce") None None)])];
      SReturn [(ESlice (ECall "Hash.Sum" [(EVar "keyIdentifierDigest"); ENil]) (Some (EInt (0))) (Some (EInt (32))))]].

(* saltpack.receiverBoxKey_makeReceiverKeys, signcrypt_seal.go *)
Definition f_saltpack_receiverBoxKey_makeReceiverKeys : gfunc := mkFunc "saltpack.receiverBoxKey_makeReceiverKeys" ["r"; "ephemeralPriv"; "payloadKey"; "index"] []
     [SAssign ["derivedKey"] [(ECall "derivedEphemeralKeyFromBoxKeys" [(ESel (EVar "r") "pk"); (EVar "ephemeralPriv")])];
      SAssign ["identifier"] [(ECall "keyIdentifierFromDerivedKey" [(EVar "derivedKey"); (EVar "index")])];
      SAssign ["nonce"] [(ECall "nonceForPayloadKeyBoxV2" [(EVar "index")])];
      SAssign ["payloadKeyBox"] [(ECall "secretbox.Seal" [ENil; (ESlice (EVar "payloadKey") None None); (EVar "nonce"); (EVar "derivedKey")])];
      SReturn [(ELit "receiverKeys" [("ReceiverKID", (EVar "identifier")); ("PayloadKeyBox", (EVar "payloadKeyBox"))])]].

(* saltpack.ReceiverSymmetricKey_makeReceiverKeys, signcrypt_seal.go *)
Definition f_saltpack_ReceiverSymmetricKey_makeReceiverKeys : gfunc := mkFunc "saltpack.ReceiverSymmetricKey_makeReceiverKeys" ["r"; "ephemeralPriv"; "payloadKey"; "index"] []
     [SAssign ["derivedKeyDigest"] [(ECall "hmac.New" [(EPkg "sha512.New"); (EConv "[]byte" (EStr "saltpack signcryption derived symmetric key"))])];
      SAssign ["_"; "_"] [(ECall "Hash.Write" [(EVar "derivedKeyDigest"); (ECall "BoxPublicKey.ToKID" [(ECall "BoxSecretKey.GetPublicKey" [(EVar "ephemeralPriv")])])])];
      SAssign ["_"; "_"] [(ECall "Hash.Write" [(EVar "derivedKeyDigest"); (ESlice (ESel (EVar "r") "Key") None None)])];
      SAssign ["derivedKey"; "err"] [(ECall "rawBoxKeyFromSlice" [(ESlice (ECall "Hash.Sum" [(EVar "derivedKeyDigest"); ENil]) (Some (EInt (0))) (Some (EInt (32))))])];
      SIf [] (EBin ONe "bool" (EVar "err") ENil)
      [SPanic (EStr "panic")]
      [];
      SAssign ["nonce"] [(ECall "nonceForPayloadKeyBoxV2" [(EVar "index")])];
      SAssign ["payloadKeyBox"] [(ECall "secretbox.Seal" [ENil; (ESlice (EVar "payloadKey") None None); (EVar "nonce"); (EVar "derivedKey")])];
      SReturn [(ELit "receiverKeys" [("ReceiverKID", (ESel (EVar "r") "Identifier")); ("PayloadKeyBox", (EVar "payloadKeyBox"))])]].

(* saltpack.checkSigncryptReceiverCount, signcrypt_seal.go *)
Definition f_saltpack_checkSigncryptReceiverCount : gfunc := mkFunc "saltpack.checkSigncryptReceiverCount" ["receiverBoxKeyCount"; "receiverSymmetricKeyCount"] []
     [SAssign ["c1"] [(EConv "int64" (EVar "receiverBoxKeyCount"))];
      SAssign ["c2"] [(EConv "int64" (EVar "receiverSymmetricKeyCount"))];
      SIf [] (EBin OLt "bool" (EVar "c1") (EInt (0)))
      [SPanic (EStr "panic")]
      [];
      SIf [] (EBin OLt "bool" (EVar "c2") (EInt (0)))
      [SPanic (EStr "panic")]
      [];
      SIf [] (EBin OGt "bool" (EVar "c1") (EInt (4294967295)))
      [SReturn [(EErrVar "ErrBadReceivers")]]
      [];
      SIf [] (EBin OGt "bool" (EVar "c2") (EInt (4294967295)))
      [SReturn [(EErrVar "ErrBadReceivers")]]
      [];
      SAssign ["c"] [(EBin OAdd "int64" (EVar "c1") (EVar "c2"))];
      SIf [] (EBin OOr "bool" (EBin OLe "bool" (EVar "c") (EInt (0))) (EBin OGt "bool" (EVar "c") (EInt (4294967295))))
      [SReturn [(EErrVar "ErrBadReceivers")]]
      [];
      SReturn [ENil]].

(* saltpack.checkSigncryptReceivers, signcrypt_seal.go *)
Definition f_saltpack_checkSigncryptReceivers : gfunc := mkFunc "saltpack.checkSigncryptReceivers" ["receiverBoxKeys"; "receiverSymmetricKeys"] []
     [SAssign ["err"] [(ECall "checkSigncryptReceiverCount" [(ELen (EVar "receiverBoxKeys")); (ELen (EVar "receiverSymmetricKeys"))])];
      SIf [] (EBin ONe "bool" (EVar "err") ENil)
      [SReturn [(EVar "err")]]
      [];
      SAssign ["receiverSet"] [(ECall "makemap" [])];
      SRange "_" "receiver" (EVar "receiverBoxKeys")
      [SAssign ["kid"] [(ECall "BoxPublicKey.ToKID" [(EVar "receiver")])];
      SAssign ["kidString"] [(EConv "string" (EVar "kid"))];
      SIf [SMapLookup "v'" "ok'" (EVar "receiverSet") (EVar "kidString")] (EBin OAnd "bool" (EVar "ok'") (EVar "v'"))
      [SReturn [(ELit "ErrRepeatedKey" [("0", (EVar "kid"))])]]
      [];
      SAssignL [(LMapIndex (LVar "receiverSet") (EVar "kidString"))] [(EBool true)]];
      SRange "_" "receiver" (EVar "receiverSymmetricKeys")
      [SAssign ["kid"] [(ESel (EVar "receiver") "Identifier")];
      SAssign ["kidString"] [(EConv "string" (EVar "kid"))];
      SIf [SMapLookup "v'" "ok'" (EVar "receiverSet") (EVar "kidString")] (EBin OAnd "bool" (EVar "ok'") (EVar "v'"))
      [SReturn [(ELit "ErrRepeatedKey" [("0", (EVar "kid"))])]]
      [];
      SAssignL [(LMapIndex (LVar "receiverSet") (EVar "kidString"))] [(EBool true)]];
      SReturn [ENil]].

(* saltpack.signcryptSealStream_init, signcrypt_seal.go *)
Definition f_saltpack_signcryptSealStream_init : gfunc := mkFunc "saltpack.signcryptSealStream_init" ["sss"; "receiverBoxKeys"; "receiverSymmetricKeys"; "ephemeralKeyCreator"; "rng"] []
     [SIf [SAssign ["err"] [(ECall "checkSigncryptReceivers" [(EVar "receiverBoxKeys"); (EVar "receiverSymmetricKeys")])]] (EBin ONe "bool" (EVar "err") ENil)
      [SReturn [(EVar "err")]]
      [];
      SAssign ["receivers"; "err"] [(ECall "signcryptRNG.shuffleReceivers" [(EVar "rng"); (EVar "receiverBoxKeys"); (EVar "receiverSymmetricKeys")])];
      SIf [] (EBin ONe "bool" (EVar "err") ENil)
      [SReturn [(EVar "err")]]
      [];
      SAssign ["ephemeralKey"; "err"] [(ECall "EphemeralKeyCreator.CreateEphemeralKey" [(EVar "ephemeralKeyCreator")])];
      SIf [] (EBin ONe "bool" (EVar "err") ENil)
      [SReturn [(EVar "err")]]
      [];
      SAssign ["eh"] [(ELit "SigncryptionHeader" [("FormatName", (EStr "saltpack")); ("Version", (ESel (EVar "sss") "version")); ("Type", (EInt (3))); ("Ephemeral", (ECall "BoxPublicKey.ToKID" [(ECall "BoxSecretKey.GetPublicKey" [(EVar "ephemeralKey")])])); ("SenderSecretbox", ENil); ("Receivers", ENil)])];
      SAssign ["encryptionKey"; "err"] [(ECall "signcryptRNG.createSymmetricKey" [(EVar "rng")])];
      SIf [] (EBin ONe "bool" (EVar "err") ENil)
      [SReturn [(EVar "err")]]
      [];
      SAssignL [(LField (LVar "sss") "encryptionKey")] [(EVar "encryptionKey")];
      SAssign ["nonce"] [(ECall "nonceForSenderKeySecretBox" [])];
      SIf [] (EBin OEq "bool" (ESel (EVar "sss") "signingKey") ENil)
      [SAssignL [(LField (LVar "eh") "SenderSecretbox")] [(ECall "secretbox.Seal" [(ELit "[]byte" []); (ECall "make" [(EInt (32))]); (EVar "nonce"); (ESel (EVar "sss") "encryptionKey")])]]
      [SAssign ["signingPublicKeyBytes"] [(ECall "SigningPublicKey.ToKID" [(ECall "SigningSecretKey.GetPublicKey" [(ESel (EVar "sss") "signingKey")])])];
      SIf [] (EBin ONe "bool" (ELen (EVar "signingPublicKeyBytes")) (EInt (32)))
      [SPanic (EStr "panic")]
      [];
      SAssignL [(LField (LVar "eh") "SenderSecretbox")] [(ECall "secretbox.Seal" [(ELit "[]byte" []); (ECall "SigningPublicKey.ToKID" [(ECall "SigningSecretKey.GetPublicKey" [(ESel (EVar "sss") "signingKey")])]); (EVar "nonce"); (ESel (EVar "sss") "encryptionKey")])]];
      SRange "i" "r" (EVar "receivers")
      [SAssignL [(LField (LVar "eh") "Receivers")] [(ECall "append" [(ESel (EVar "eh") "Receivers"); (ECall "receiverKeysMaker.makeReceiverKeys" [(EVar "r"); (EVar "ephemeralKey"); (ESel (EVar "sss") "encryptionKey"); (EConv "uint64" (EVar "i"))])])]];
      SAssign ["headerBytes"; "err"] [(ECall "encodeToBytes" [(EVar "eh")])];
      SIf [] (EBin ONe "bool" (EVar "err") ENil)
      [SReturn [(EVar "err")]]
      [];
      SAssignL [(LField (LVar "sss") "headerHash")] [(ECall "sha512.Sum512" [(EVar "headerBytes")])];
      SAssign ["err"] [(ECall "encoder.Encode" [(ESel (EVar "sss") "encoder"); (EVar "headerBytes")])];
      SIf [] (EBin ONe "bool" (EVar "err") ENil)
      [SReturn [(EVar "err")]]
      [];
      SReturn [ENil]].

(* saltpack.signcryptSealStream_Close, signcrypt_seal.go *)
Definition f_saltpack_signcryptSealStream_Close : gfunc := mkFunc "saltpack.signcryptSealStream_Close" ["sss"] []
     [SAssign ["err"] [(ECall "signcryptSealStream.signcryptBlock" [(EVar "sss"); (EBool true)])];
      SIf [] (EBin ONe "bool" (EVar "err") ENil)
      [SReturn [(EVar "err")]]
      [];
      SIf [] (EBin OGt "bool" (ECall "Buffer.Len" [(ESel (EVar "sss") "buffer")]) (EInt (0)))
      [SPanic (EStr "panic")]
      [];
      SReturn [ENil]].

