(* GENERATED from /repo by harness/cmd/gen (goast.go) — do not edit.
   The bodies of the listed functions as terms of the deep embedding of model/GoLang.v. *)
From Coq Require Import List String ZArith.
From SP Require Import GoLang.
Import ListNotations.
Local Open Scope string_scope.
Local Open Scope Z_scope.

(* saltpack.armorEncoderStream_Write, armor.go *)
Definition f_saltpack_armorEncoderStream_Write : gfunc := mkFunc "saltpack.armorEncoderStream_Write" ["s"; "b"] [("n", "int"); ("err", "error")]
     [SIf [] (EBin ONe "bool" (ESel (EVar "s") "err") ENil)
      [SReturn [(EInt (0)); (ESel (EVar "s") "err")]]
      [];
      SAssign ["n"; "err"] [(ECall "WriteCloser.Write" [(ESel (EVar "s") "encoder"); (EVar "b")])];
      SIf [] (EBin ONe "bool" (EVar "err") ENil)
      [SAssignL [(LField (LVar "s") "err")] [(EVar "err")];
      SReturn [(EVar "n"); (EVar "err")]]
      [];
      SIf [SAssign ["err"] [(ECall "armorEncoderStream.spaceAndOutputBuffer" [(EVar "s")])]] (EBin ONe "bool" (EVar "err") ENil)
      [SAssignL [(LField (LVar "s") "err")] [(EVar "err")];
      SReturn [(EVar "n"); (EVar "err")]]
      [];
      SReturn [(EVar "n"); ENil]].

(* saltpack.armorEncoderStream_spaceAndOutputBuffer, armor.go *)
Definition f_saltpack_armorEncoderStream_spaceAndOutputBuffer : gfunc := mkFunc "saltpack.armorEncoderStream_spaceAndOutputBuffer" ["s"] []
     [SFor (EBin OGt "bool" (ECall "Buffer.Len" [(ESel (EVar "s") "buf")]) (ESel (ESel (EVar "s") "params") "BytesPerWord"))
      [SAssign ["buf"] [(ECall "Buffer.Next" [(ESel (EVar "s") "buf"); (ESel (ESel (EVar "s") "params") "BytesPerWord")])];
      SOpAssignL (LField (LVar "s") "nWords") OAdd "int" (EInt 1);
      SAssign ["sep"] [(EInt (32))];
      SIf [] (EBin OEq "bool" (EBin OMod "int" (ESel (EVar "s") "nWords") (ESel (ESel (EVar "s") "params") "WordsPerLine")) (EInt (0)))
      [SAssign ["sep"] [(EInt (10))]]
      [];
      SIf [SAssign ["_"; "err"] [(ECall "Writer.Write" [(ESel (EVar "s") "encoded"); (EVar "buf")])]] (EBin ONe "bool" (EVar "err") ENil)
      [SReturn [(EVar "err")]]
      [];
      SIf [SAssign ["_"; "err"] [(ECall "Writer.Write" [(ESel (EVar "s") "encoded"); (ELit "[]byte" [("0", (EVar "sep"))])])]] (EBin ONe "bool" (EVar "err") ENil)
      [SReturn [(EVar "err")]]
      []];
      SReturn [ENil]].

(* saltpack.armorEncoderStream_Close, armor.go *)
Definition f_saltpack_armorEncoderStream_Close : gfunc := mkFunc "saltpack.armorEncoderStream_Close" ["s"] [("err", "error")]
     [SIf [] (EBin ONe "bool" (ESel (EVar "s") "err") ENil)
      [SReturn [(ESel (EVar "s") "err")]]
      [];
      SIf [SAssign ["err"] [(ECall "WriteCloser.Close" [(ESel (EVar "s") "encoder")])]] (EBin ONe "bool" (EVar "err") ENil)
      [SAssignL [(LField (LVar "s") "err")] [(EVar "err")];
      SReturn [(EVar "err")]]
      [];
      SIf [SAssign ["err"] [(ECall "armorEncoderStream.spaceAndOutputBuffer" [(EVar "s")])]] (EBin ONe "bool" (EVar "err") ENil)
      [SAssignL [(LField (LVar "s") "err")] [(EVar "err")];
      SReturn [(EVar "err")]]
      [];
      SAssign ["lst"] [(ECall "Buffer.Bytes" [(ESel (EVar "s") "buf")])];
      SIf [SAssign ["_"; "err"] [(ECall "Writer.Write" [(ESel (EVar "s") "encoded"); (EVar "lst")])]] (EBin ONe "bool" (EVar "err") ENil)
      [SAssignL [(LField (LVar "s") "err")] [(EVar "err")];
      SReturn [(EVar "err")]]
      [];
      SOpAssignL (LField (LVar "s") "nWords") OAdd "int" (EInt 1);
      SAssign ["pad"] [(EStr "")];
      SIf [] (EBin OEq "bool" (ELen (EVar "lst")) (ESel (ESel (EVar "s") "params") "BytesPerWord"))
      [SIf [] (EBin OEq "bool" (EBin OMod "int" (ESel (EVar "s") "nWords") (ESel (ESel (EVar "s") "params") "WordsPerLine")) (EInt (0)))
      [SAssign ["pad"] [(EBytesLit [10])]]
      [SAssign ["pad"] [(EStr " ")]]]
      [];
      SIf [SAssign ["_"; "err"] [(ECall "fmt.Fprintf" [(ESel (EVar "s") "encoded"); (EBytesLit [37; 115; 37; 99; 32; 37; 115; 37; 99; 10]); (EVar "pad"); (ESel (ESel (EVar "s") "params") "Punctuation"); (ESel (EVar "s") "footer"); (ESel (ESel (EVar "s") "params") "Punctuation")])]] (EBin ONe "bool" (EVar "err") ENil)
      [SAssignL [(LField (LVar "s") "err")] [(EVar "err")];
      SReturn [(EVar "err")]]
      [];
      SReturn [ENil]].

(* basex.encoder_Write, stream.go *)
Definition f_basex_encoder_Write : gfunc := mkFunc "basex.encoder_Write" ["e"; "p"] [("n", "int"); ("err", "error")]
     [SIf [] (EBin ONe "bool" (ESel (EVar "e") "err") ENil)
      [SReturn [(EInt (0)); (ESel (EVar "e") "err")]]
      [];
      SAssign ["ibl"] [(ESel (ESel (EVar "e") "enc") "base256BlockLen")];
      SAssign ["obl"] [(ESel (ESel (EVar "e") "enc") "baseXBlockLen")];
      SIf [] (EBin OGt "bool" (ESel (EVar "e") "nbuf") (EInt (0)))
      [SVar "i" "int";
      SIf [SAssign ["i"] [(EInt (0))]] (EBool true) [SFor (EBin OAnd "bool" (EBin OLt "bool" (EVar "i") (ELen (EVar "p"))) (EBin OLt "bool" (ESel (EVar "e") "nbuf") (EVar "ibl")))
      ([SAssignL [(LIndex (LField (LVar "e") "buf") (ESel (EVar "e") "nbuf"))] [(EIdx (EVar "p") (EVar "i"))];
      SOpAssignL (LField (LVar "e") "nbuf") OAdd "int" (EInt 1)] ++ [SOpAssign "i" OAdd "int" (EInt 1)])] [];
      SOpAssign "n" OAdd "int" (EVar "i");
      SAssign ["p"] [(ESlice (EVar "p") (Some (EVar "i")) None)];
      SIf [] (EBin OLt "bool" (ESel (EVar "e") "nbuf") (EVar "ibl"))
      [SReturn [(EVar "n"); (EVar "err")]]
      [];
      SExpr (ECall "Encoding.Encode" [(ESel (EVar "e") "enc"); (ESel (EVar "e") "out"); (ESel (EVar "e") "buf")]);
      SIf [SAssignL [(LVar "_"); (LField (LVar "e") "err")] [(ECall "Writer.Write" [(ESel (EVar "e") "w"); (ESlice (ESel (EVar "e") "out") None (Some (EVar "obl")))])]] (EBin ONe "bool" (ESel (EVar "e") "err") ENil)
      [SReturn [(EVar "n"); (ESel (EVar "e") "err")]]
      [];
      SAssignL [(LField (LVar "e") "nbuf")] [(EInt (0))]]
      [];
      SFor (EBin OGe "bool" (ELen (EVar "p")) (EVar "ibl"))
      [SAssign ["nn"] [(EBin OMul "int" (EBin ODiv "int" (ELen (ESel (EVar "e") "out")) (EVar "obl")) (EVar "ibl"))];
      SIf [] (EBin OGt "bool" (EVar "nn") (ELen (EVar "p")))
      [SAssign ["nn"] [(ELen (EVar "p"))];
      SOpAssign "nn" OSub "int" (EBin OMod "int" (EVar "nn") (EVar "ibl"))]
      [];
      SExpr (ECall "Encoding.Encode" [(ESel (EVar "e") "enc"); (ESel (EVar "e") "out"); (ESlice (EVar "p") None (Some (EVar "nn")))]);
      SIf [SAssignL [(LVar "_"); (LField (LVar "e") "err")] [(ECall "Writer.Write" [(ESel (EVar "e") "w"); (ESlice (ESel (EVar "e") "out") (Some (EInt (0))) (Some (EBin OMul "int" (EBin ODiv "int" (EVar "nn") (EVar "ibl")) (EVar "obl"))))])]] (EBin ONe "bool" (ESel (EVar "e") "err") ENil)
      [SReturn [(EVar "n"); (ESel (EVar "e") "err")]]
      [];
      SOpAssign "n" OAdd "int" (EVar "nn");
      SAssign ["p"] [(ESlice (EVar "p") (Some (EVar "nn")) None)]];
      SExpr (ECall "copy" [(ESlice (ESel (EVar "e") "buf") (Some (EInt (0))) (Some (ELen (EVar "p")))); (EVar "p")]);
      SAssignL [(LField (LVar "e") "nbuf")] [(ELen (EVar "p"))];
      SOpAssign "n" OAdd "int" (ELen (EVar "p"));
      SReturn [(EVar "n"); (EVar "err")]].

(* basex.encoder_Close, stream.go *)
Definition f_basex_encoder_Close : gfunc := mkFunc "basex.encoder_Close" ["e"] []
     [SIf [] (EBin OAnd "bool" (EBin OEq "bool" (ESel (EVar "e") "err") ENil) (EBin OGt "bool" (ESel (EVar "e") "nbuf") (EInt (0))))
      [SExpr (ECall "Encoding.Encode" [(ESel (EVar "e") "enc"); (ESel (EVar "e") "out"); (ESlice (ESel (EVar "e") "buf") None (Some (ESel (EVar "e") "nbuf")))]);
      SAssignL [(LVar "_"); (LField (LVar "e") "err")] [(ECall "Writer.Write" [(ESel (EVar "e") "w"); (ESlice (ESel (EVar "e") "out") None (Some (ECall "Encoding.EncodedLen" [(ESel (EVar "e") "enc"); (ESel (EVar "e") "nbuf")])))])];
      SAssignL [(LField (LVar "e") "nbuf")] [(EInt (0))]]
      [];
      SReturn [(ESel (EVar "e") "err")]].

