#!/bin/bash
# verify_seed.sh <name> <dir with seed.patch + seed_demo_test.go>
# Confirms in a fresh scratch worktree of /repo: patch applies, builds, the pinned test
# suite passes with it, the demonstration fails with it and passes without it.
# On success copies to /verif/seeded/<name>/{patch.diff,seed_demo_test.go}. Always removes the worktree.
set -u
name=$1; src=$2
export GOFLAGS=-mod=mod GOPROXY=off GOSUMDB=off GOTOOLCHAIN=local
wt=/tmp/vs_$name
git -C /repo worktree remove --force $wt 2>/dev/null
git -C /repo worktree add -q --detach $wt HEAD || exit 2
cleanup() { git -C /repo worktree remove --force $wt; git -C /repo worktree prune; }
trap cleanup EXIT
cd $wt
# the patch must not touch tests, the hook file, or anything under verif
if grep -E '^\+\+\+ b/.*(_test\.go|verif_export\.go)' $src/seed.patch; then echo "REJECT: touches tests/hooks"; exit 1; fi
git apply $src/seed.patch || { echo "REJECT: patch does not apply"; exit 1; }
go build ./... || { echo "REJECT: build fails"; exit 1; }
go vet ./... >/dev/null 2>&1 || echo "note: vet complains"
go test -vet=off -count=1 -timeout 25m ./... > /tmp/vs_$name.suite 2>&1 || { echo "REJECT: suite fails"; tail -20 /tmp/vs_$name.suite; exit 1; }
go test -tags verif -vet=off -count=1 -run XXX ./... >/dev/null 2>&1 || { echo "REJECT: verif-tag build fails"; exit 1; }
echo "suite: PASS with change"; cat /tmp/vs_$name.suite
# the demonstration normally sits in the root package; a sub-package demo is kept under its directory name
pkg=.
if [ ! -f $src/seed_demo_test.go ]; then
  d=$(cd $src && ls */seed_demo_test.go encoding/*/seed_demo_test.go 2>/dev/null | head -1); pkg=./$(dirname $d)
  cp $src/$d $pkg/seed_demo_test.go
else
  cp $src/seed_demo_test.go .
fi
go test -vet=off -count=1 -run 'TestSeedDemo$' $pkg > /tmp/vs_$name.with 2>&1 && { echo "REJECT: demo passes with change"; exit 1; }
echo "demo: FAIL with change"; grep -m6 -E "seed_demo_test|FAIL" /tmp/vs_$name.with
git apply -R $src/seed.patch
go test -vet=off -count=1 -run 'TestSeedDemo$' $pkg > /tmp/vs_$name.without 2>&1 || { echo "REJECT: demo fails without change"; tail /tmp/vs_$name.without; exit 1; }
echo "demo: PASS without change"
mkdir -p /verif/seeded/$name
cp $src/seed.patch /verif/seeded/$name/patch.diff
cp $pkg/seed_demo_test.go /verif/seeded/$name/seed_demo_test.go; echo "$pkg" > /verif/seeded/$name/demo_pkg
{ echo "== suite with change"; cat /tmp/vs_$name.suite; echo "== demo with change"; cat /tmp/vs_$name.with; echo "== demo without change"; cat /tmp/vs_$name.without; } > /verif/seeded/$name/verification.log
rm -f /tmp/vs_$name.*
echo "KEPT $name"
