#!/usr/bin/env python3
"""Regenerates MANIFEST.json from the table below (keeps it schema-valid)."""
import json, os
ROOT = os.path.dirname(os.path.dirname(os.path.abspath(__file__)))
props = [json.loads(l) for l in open(os.path.join(ROOT, "properties.jsonl"))]

NOTE_COMMON = ("Trusted: Coq 8.16.1 kernel (vm_compute used, native_compute not), the gen translator, ExtrOcamlBasic extraction + OCaml runner glue, "
               "the Go harness; no axioms (Print Assumptions: closed under the global context). ")

# id -> (technique, level text, level note, design ref)
NOTE_CRYPTO = ("Cryptographic primitives are an arbitrary record argument `c : crypto`; round-trip theorems assume only `crypto_ok c` (functional correctness of SHA-512/HMAC/XSalsa20-Poly1305/X25519/Ed25519, satisfiable: proved for a toy instance), authenticity theorems assume only that SHA-512 outputs have 64 bytes and conclude `authentic \\/ explicit break witness`; infeasibility of such witnesses is NaCl's assumption and is NOT established. go-codec's MessagePack behaviour is modelled (coq/model/Msgpack.v) and tied by the campaign; inputs outside the modelled subset are counted as unmodelled and not compared. ")
RT = "Coq proof by induction over the packet plan (MessagePack round trip, chunker shape, crypto_ok) + byte-exact differential correspondence with pinned randomness + round-trip oracles on /repo"
AUTH = "Coq reduction proof (any input, any primitives: authentic or explicit forgery/collision witness) + structure-aware mutation and spec-aware forgery campaign against /repo with ground-truth oracle"
CLAIMED = {
 "C01": (RT,
         "Theorems (props/C01.v): the sender is checks + draws (shuffle, ephemeral secret, payload key) + seal_core on a permutation of the recipients; for every plaintext/Write split, V1/V2, named/anonymous sender, pairwise distinct recipients, EVERY position and visibility, the holder of that key opens the message (stream and all-at-once, both shipped validators) to exactly the plaintext, sender key or anonymous flag, its own key and hidden flag, or another recipient's payload-key box of that very message opens under its shared key (concrete NaCl break); strangers get ErrNoDecryptionKey; streaming = one-shot sender. Campaign: emitted bytes and randomness consumption equal the extracted model's byte for byte (incl. k MiB +-1), every recipient and a stranger open the real output.",
         NOTE_COMMON + NOTE_CRYPTO + "Side condition: encoded header < 4 GiB (discharged for <= 40,000,000 recipients with <= 32-byte keys). Keys are harness keys built on package basic; armored entry points are covered by C11/C13 campaigns, not by these theorems.",
         "DESIGN.md section 5 C01"),
 "C02": (AUTH,
         "Theorem (props/C02.v): for EVERY input byte string, every shipped validator and sender-lookup policy, if an honest recipient's stream opens naming the honest non-anonymous sender, then either nothing was released and the end is not clean, or the released chunks are a prefix of the chunks of ONE message in the sender's honest history (any spec-following chunking, V1/V2) whose recipient list contains this recipient, clean end only after all of them, or the input itself carries - at the recipient's authenticator slot of a packet the receiver examines, extracted by a fixed function - a valid HMAC tag under the pairwise MAC key for a (header hash, index, payload hash) the sender never authenticated for this recipient, or a SHA-512 collision. The payload key's secrecy is never used (co-recipient forgeries are covered). Campaign: ~500 (quick) mutated/spliced messages and spec-aware insider forgeries built with the genuine payload key; model = /repo on key attribution, released bytes, error class; ground-truth prefix oracle.",
         NOTE_COMMON + NOTE_CRYPTO + "Needs crypto_ok (ok_sb, ok_dh) to identify the recovered payload key with the sender's. The break disjunct names where in the input the forged tag sits; its infeasibility is assumed, not proved.",
         "DESIGN.md section 5 C02"),
 "C03": (RT,
         "Theorems (props/C03.v): sender structure (checks, draws, core on a permutation of box+symmetric recipients); the holder of the box secret key at ANY position, and a holder of no box key whose resolver resolves ANY subset of identifiers containing one (each to its genuine key), recover exactly the plaintext and the signer key (none for anonymous), stream and all-at-once - unless another entry's identifier collides with the opener's HMAC-derived identifier (concrete witness); holders of no key get ErrNoDecryptionKey; streaming = one-shot. Campaign: bytes equal the model's (incl. 1 MiB +-1), every box recipient, every symmetric recipient with single and random-subset resolvers, and a stranger open the real output.",
         NOTE_COMMON + NOTE_CRYPTO + "Side condition: encoded header < 4 GiB (discharged by C03_header_fits). A resolver returning a WRONG key for an earlier identifier makes the code fail with ErrDecryptionFailed; that is outside 'resolvable' and excluded by the hypothesis resolver_genuine.",
         "DESIGN.md section 5 C03"),
 "C04": (AUTH,
         "Theorem (props/C04.v): for EVERY input and EVERY instance of the primitives with 64-byte hashes (nothing assumed about secretbox, so insiders who know the payload key are covered), if the open stream names signer pk and releases chunks then they are a prefix of the chunks of ONE message pk signcrypted under exactly the presented header, clean end only after all of them - or the input carries, inside an examined packet (fixed extractor), a signature valid under pk on a string pk never signed (attached/detached/signcryption domain separation proved), or a SHA-512 collision. Campaign: mutations as C02 plus insider forgeries (modified plaintext, flipped final flag, renumbered/duplicated chunks, zero signature, transplanted signatures under a new header).",
         NOTE_COMMON + NOTE_CRYPTO + "Anonymous-sender messages promise only integrity against parties without the payload key; that clause is exercised by the campaign, not proved.",
         "DESIGN.md section 5 C04"),
 "C05": (RT,
         "Theorems (props/C05.v): for every message and Write split, V1/V2, key and randomness stream, Sign's output verifies (stream and all-at-once, both validators) to exactly the message and signer, consuming exactly the 16 nonce bytes; a keyring not knowing the signer gets ErrNoSenderKey and no bytes; streaming = one-shot signer. Campaign: emitted bytes equal the model's byte for byte (incl. 1 MiB +-1), Verify/stream-verify (one-byte reader) round trip and unknown-signer checks on /repo.",
         NOTE_COMMON + NOTE_CRYPTO + "Armored forms are covered by the C11/C13 campaigns.",
         "DESIGN.md section 5 C05"),
 "C06": (AUTH,
         "Theorem (props/C06.v): for EVERY input byte string (< 2^64 bytes), every keyring and shipped validator, if the attached-signature verifier returns key pk and releases chunks, then either nothing was released and the stream did not end cleanly, or the released chunks are a prefix of the chunks of ONE attached message in pk's honest history (any spec-following chunking, fresh header nonces) and a clean end happens only after all of them, or the input yields a signature that verifies on a string pk never signed / two different strings with equal SHA-512 (domain separation between attached, detached and signcryption signature inputs is proved). Campaign: ~500 (quick) mutated and spliced messages incl. detached-as-attached; model = /repo on signer, released bytes, error class; ground-truth prefix oracle.",
         NOTE_COMMON + NOTE_CRYPTO + "The break disjunct is an existence statement; the proof constructs the witness from the input, but that it is infeasible to produce is assumed, not proved.",
         "DESIGN.md section 5 C06"),
 "C07": (RT + "; " + AUTH,
         "Theorems (props/C07.v): detached round trip (both versions, both validators); attached presented as detached and detached presented as attached are refused (ErrWrongMessageType) whatever the keyring; authenticity reduction: VerifyDetached succeeds only for exactly the (message, header) pair the key signed in detached mode, or forgery/collision witness. Campaign: every kind of message/signature mutation, header transplants between signatures by the same key, fragmenting data-with-EOF reader for VerifyDetachedReader.",
         NOTE_COMMON + NOTE_CRYPTO + "Trailing bytes after the signature object are ignored by the code and by the model (not part of the property).",
         "DESIGN.md section 5 C07"),
 "C08": ("Coq proof of literal byte equality between the implementation model (constants regenerated from /repo) and a specification model with literals copied from specs/*.md + the independent strict receiver written from the specs parsing every kind of library output",
         "Theorems (props/C08.v): every string/number/nonce constructor the senders use equals the specification's literal (21 conjuncts over gen/Consts.v, so an edited constant in /repo breaks the proof at make time); for encryption V1/V2, attached V1/V2, detached V1/V2 and signcryption, what the model's sender emits equals byte for byte the specification encoder (twice-encoded header, minimal MessagePack forms, specified nonces, key boxes, recipient identifiers, MAC and signature inputs, packet field order) instantiated with 1 MiB chunks, final marker on the last packet only, minor 0, no extras; the library's chunking is one the specification allows. Campaign: ~560 (quick) outputs of every sender (all lengths incl. 0 and chunk boundaries, recipient configs, named/anonymous) must equal the extracted model's bytes and be authenticated and decoded to the same plaintext/sender/recipients/version by the strict reference receiver (minimal encodings, byte strings never nil, chunks <= 1 MiB).",
         NOTE_COMMON + NOTE_CRYPTO + "The specification model is my transcription of the markdown; the Go reference receiver is a second, independent transcription. KNOWN FINDING (known_findings.txt): signature header nonce is 16 bytes, the specs say 32.",
         "DESIGN.md section 5 C08"),
 "C09": ("Coq proof: the GENERAL specification encoders (any chunking, minor version, extra trailing elements) are accepted by the model's receivers (induction over arbitrary packet lists) + reference-sender campaign against /repo",
         "Theorems (props/C09.v): for attached, detached, encryption (every recipient position and visibility) and signcryption (box recipients), every message the general specification encoder can produce - chunks of 1 byte..1 MiB in any sequence, V1/V2, any fixnum minor, extra trailing elements in header, recipient pairs and packets - is accepted under a validator admitting its major version, yielding exactly the chunks' concatenation and the specified sender/recipient attribution (or the explicit foreign-box / identifier-collision witness). Campaign: 400 (quick) messages from the independent Go reference sender with random knobs to every /repo entry point (stream and all-at-once) and to the model.",
         NOTE_COMMON + NOTE_CRYPTO + "Side condition: encoded header < 4 GiB. Signcryption symmetric-key recipients of foreign senders are covered by the campaign, not by a theorem. go-codec leniency (extras ignored, any int width) is modelled.",
         "DESIGN.md section 5 C09"),
 "C10": ("Coq proof (induction over blocks, positional-numeral inversion) + exhaustive/differential correspondence of the extracted model with encoding/basex",
         "Machine-checked theorems over the Gallina model of encoding/basex: encodeBlock is fixed-width positional base conversion, decode(encode x)=x for every byte string, strict decoding accepts only canonical strings (non-minimal lengths, foreign characters and overflowing values rejected), skip characters are exactly deletable, length helper = encoder output length. The model is the extracted code the harness runs against the Go package on every run (all 1-byte blocks, all short strings, every length 0..4*blocklen+1, mutated encodings).",
         NOTE_COMMON + "Go float64/math.Log2 length formulas are not modelled; they are compared exhaustively on the domain the code evaluates them on. math/big is trusted. Streaming encoder/decoder: see C13.",
         "DESIGN.md section 5 C10"),
 "C11": ("Coq proof over the denotational armor model (frame grammar soundness/completeness, word/line shape by induction, round trip under an inductively defined re-flow relation, via the BaseX round trip) + campaign incl. an exhaustive small-alphabet enumeration tying the hand-written matchers to Go's regexp",
         "Theorems (props/C11.v): the frames the library writes parse back to their brand; the body of every payload is base-62 words of <=15 characters, <=200 per line, whose digits are the block-wise encoding; dearmor(armor(p)) returns the identical payload, brand, header and footer, also after arbitrary runs of space/tab/CR/LF/'>' inserted between any two payload characters, between frame words or around the frame (frames within 512 characters); a sentence is accepted as a frame ONLY if it normalises to the canonical frame of the expected marker and type, is <=512 bytes and its brand <=128; the footer must mirror the header; whatever a validating dearmor accepts carries such a frame of the expected type. Campaign: ~62,000 evaluations (quick): every payload length 0..140, line-break lengths, brands 0/1/7/127/128, re-flows, adversarial texts, and EVERY string over {'.',' ','0','z','!','>'} up to length 6 through Armor62Open/CheckArmor62, model = /repo.",
         NOTE_COMMON + "Go's regexp, strings.TrimSpace on non-ASCII input and buffer aliasing in punctuatedReader are modelled only. Reading of 'identical header and footer': Frame.GetHeader/GetFooter return the sentence as received (trimmed), so after a re-flow inside the frame they are identical up to the inserted runs (the theorem says exactly that). The streaming state machines are covered by C13.",
         "DESIGN.md section 5 C11"),
 "C12": ("Coq proof by induction over the receivers'/senders' control flow on a key-call trace model (no cryptographic assumption, every input) + campaign with recording key-object wrappers comparing the real call sequence with the model's trace",
         "Theorems (props/C12.v): for EVERY received byte string, validator and keyring, every Unbox/Precompute-Unbox on a long-term box key uses the V1 constant nonce or 'saltpack_recipsb'+recipient index, every Box on a long-term box key (receiver MAC keys, signcryption derived keys, sender MAC keys) boxes exactly 32 zero bytes; every string handed to a signing key is one of the three domain-separation strings followed by fixed-length hash material (64 or 153 bytes), and for attached signatures that hash covers the header hash of a header containing the 16 bytes just drawn. Campaign: ~500 (quick) genuine/mutated/forged messages and sends with recording BoxSecretKey/BoxPrecomputedSharedKey/SigningSecretKey wrappers: recorded (operation, peer, nonce, message) sequences equal the model's trace and satisfy the predicate directly.",
         NOTE_COMMON + "The trace functions (coq/model/KeyTrace.v) mirror the control flow of Decrypt.v/Signcrypt.v/Sign.v and are a separate definition tied to /repo by the campaign; ephemeral keys are not long-term keys and are not traced.",
         "DESIGN.md section 5 C12"),
 "C13": ("Coq proof: saltpack's stream adaptors as explicit state machines over explicit read schedules (refinement of a denotation under every schedule and buffer-size sequence; write-split independence and buffer bounds by induction) + call-by-call correspondence with /repo's punctuatedReader/chunkReader and a fragmentation campaign over all decoding stacks",
         "Theorems (props/C13.v): every split of the input across Write calls (incl. empty writes) gives the one-shot bytes for the chunker, Sign/Seal/SigncryptSeal streams, the basex stream encoder and the armor encoder; buffers are bounded (<= one block of plaintext, < one basex input block, <= one armor word); chunkReader and punctuatedReader (as repaired) deliver a function of the source's BYTES under every fragmentation of the underlying reader incl. data delivered together with EOF or another error and every caller buffer sizes; frame sentences (ReadUntilPunctuation) depend on the bytes only. Campaign: the Go punctuatedReader/chunkReader equal the Coq state machines call by call on ~600 schedules; every decoding stack (binary and armored) on genuine/mutated/re-flowed/padded inputs under 16 fragmentations + exhaustive two-cut splits: same outcome, same bytes, prefix-related on failure; 24 MiB (192 MiB thorough) streamed with bounded live heap.",
         NOTE_COMMON + "PARTIAL for: the composed armored decode stack, the basex stream decoder/filteringReader and go-codec's reader (campaign only), and the memory clause (measured live heap, not proved; the model's state-size bounds mirror it).",
         "DESIGN.md section 5 C13"),
 "C14": ("exhaustive fault enumeration (a fault at every underlying Write/Read call of a fault-free run, transient/sticky/with-data) on /repo + Coq corollaries of the adaptor refinement theorems for the read side",
         "Theorems (props/C14.v): for punctuatedReader, chunkReader and frame sentences, under every fragmentation and buffer sizes, if reading ended with an error it is the underlying reader's own error (so a non-EOF fault is never turned into a clean end), reported only after every byte delivered before or together with it, and enough reads always reach it. Campaign: 12 encoder streams x 4 message lengths (more in thorough) with a fault at EVERY underlying Write (once / from then on): the constructor, some Write or Close returns an error; every decoder stack with an injected error at EVERY underlying Read (alone transient, alone sticky, with data incl. whitespace-only slices): the stream ends with an error and released bytes are a prefix of the genuine output (~5,700 injections quick).",
         NOTE_COMMON + "PARTIAL: the write side (sticky error fields, closeForwarder, go-codec's encoder) and the composed decode stacks are decided by enumeration on /repo, not by a theorem; evidence level is therefore fault_enumeration with proof obligations for the read-side adaptors.",
         "DESIGN.md section 5 C14"),
 "C17": ("Coq proof (header gate lemmas by unfolding; cross-mode and version refusals as corollaries of the round-trip lemmas) + cross-feeding campaign over every producer/consumer/validator triple and lying-header forgeries",
         "Theorems (props/C17.v): each receiving entry point succeeds only if the header decoded from the wire names format 'saltpack', carries a version the caller's validator accepts (signcryption: major 2) and the entry point's mode; the four mode values and the two versions are distinct; a genuine attached signature is refused by the detached verifier and vice versa, a genuine message is refused by the single-version validator of the other version; Sign/SignDetached/Seal with any version outside {1.0, 2.0} return ErrBadVersion (no bytes, no panic in the model). Campaign: all 7 producers x 4 consumers x validators; messages from the reference sender whose header lies about format/version/mode with all keys/MACs/signatures recomputed; every Version in {0..3}x{0..2} and odd values to every sender.",
         NOTE_COMMON + NOTE_CRYPTO + "Cross-mode authenticity against forgers is carried by C02/C04/C06/C07 (mode and version are inside the hashed header; domain-separation strings).",
         "DESIGN.md section 5 C17"),
 "C18": ("Coq proof (randomness as an explicit stream: consumption lemmas, nonce injectivity) + pinned-randomness campaign with the reference receiver recovering the secrets, and a source fault at every offset",
         "Theorems (props/C18.v): the signature header nonce is exactly the first 16 stream bytes and the next operation sees what follows; for Seal/SigncryptSeal the shuffle consumes a prefix, then the ephemeral secret and the payload key are the next two disjoint 32-byte segments and the remainder is handed on - so across any history secrets repeat only if the source repeats; within a message chunk nonces are pairwise distinct (encryption and signcryption) up to the 2^64-1 counter bound where the code returns ErrPacketOverflow; a stream too short at any draw makes every sender return ErrRand. Campaign: 60 (quick) repeated calls with identical arguments: ephemeral keys, payload keys (recovered by the reference receiver) and nonces pairwise distinct and equal to the drawn bytes; source failure at every offset for all four senders.",
         NOTE_COMMON + "The quality of the OS randomness source is out of scope; crypto/rand.Reader is replaced by a counting reader in the campaign. basic.EphemeralKeyCreator's key generation (box.GenerateKey) is modelled as 'read 32 bytes'.",
         "DESIGN.md section 5 C18"),
 "C19": ("Coq proof (explicit bijections for Lemire rejection sampling and Fisher-Yates) + differential correspondence on the verif-tag hooks",
         "Machine-checked theorems over the Gallina model of rand.go: the two-stage rejection test equals low < 2^32 mod n; (k,t) -> ceil((k*2^32+thresh)/n)+t is a bijection from [0,n) x [0,floor(2^32/n)) onto the accepted 32-bit draws with output k (exact uniformity for every n < 2^32); the shuffle is Fisher-Yates on the accepted draws, which is a bijection from draw sequences onto all arrangements (permutation, surjective, injective), whatever the caller's order. The extracted model is run against csprngUint32n/csprngShuffle (exported under -tags verif) on boundary source values and on every draw sequence for n<=6.",
         NOTE_COMMON + "Identity-hiding clause: checked on every sealed message by the C01/C03 campaigns' wire oracles (sender key and hidden/box recipients' keys absent from the bytes, visible recipients exactly once); secrecy of ciphertexts is NaCl's assumption.",
         "DESIGN.md section 5 C19"),
 "C15": ("Coq proof (no panic outcome on any input, for the three receivers, dearmor and the classifier; inventory of panic-capable constructs regenerated from /repo pinned by a theorem) + hostile-input campaign under recover/deadline/allocation budget",
         "Machine-checked theorems over the Gallina model in which every Go panic of the receive path is an explicit Panic outcome: for every input byte string, every keyring/resolver and every crypto record, verify (attached, detached), decrypt (given the secretbox length fact) and signcryption-open end in an ordinary error or a clean end under validators admitting only majors 1 and 2 (the shipped ones are such); no receiver hands chunkReader an empty non-final chunk; dearmor and the armored classifier never reach their panics. The translator regenerates the per-function inventory of panic(), index, slice, length-helper and type-assertion constructs of the receive/dearmor/classify files and the theorem C15_inventory_covered pins it. The campaign drives 14 entry points with structure-aware MessagePack-tree mutations, length bombs and armored-text mutations against misbehaving keyrings (nil, wrong-length, foreign keys, nil ephemeral import) under recover with a deadline and an allocation budget, and compares outcomes with the model's.",
         NOTE_COMMON + "PARTIAL: go-codec's own robustness on hostile bytes, allocation bounded by supplied bytes and real-time termination are observed by the campaign (deadline, allocation counters), not proved. Validators admitting unknown major versions are excluded by hypothesis (the code documents that the caller is responsible).",
         "DESIGN.md section 5 C15"),
 "C16": ("Coq proof (prefix stability and soundness of the binary and armored classifiers for every genuine message and every cut) + differential correspondence on every prefix",
         "Machine-checked theorems over the Gallina model of classify_and_decrypt.go: for every spec-following message of every mode and version 0..127, any further header fields and any payload, every prefix shorter than 23 bytes is 'need more data' and every longer one is exactly (mode, version); for its armored form, any cut inside the header sentence is 'need more data' and any cut in the body is 'need more data' or exactly (brand, mode, version); a positive binary answer really parses as format name/version/mode and a positive armored answer carries that mode's label, brand and a first block decoding to such a header. The extracted classifiers are run against IsSaltpackBinarySlice / IsSaltpackArmoredPrefix / ClassifyStream on every prefix of genuine messages of all modes and on mutated prefixes; ClassifyEncryptedStreamAndMakeDecoder is checked to dispatch to a decoder that returns the plaintext.",
         NOTE_COMMON + "PARTIAL: bufio.Peek/regexp behaviour is modelled; the dispatch to the matching decoder is decided by the campaign only.",
         "DESIGN.md section 5 C16"),
 "C20": ("Coq proof (interleaving independence of calls that share only immutable state; shared-state inventory regenerated from /repo pinned by a theorem) + race-detector campaign",
         "Machine-checked theorems: in an interleaving semantics where each call owns its state and shared state is read-only, every interleaving of any set of calls gives each call the result of running it alone; the translator regenerates the inventory of package-level variables and of every assignment/pointer-receiver call that could write through them or through a shared *basex.Encoding, and the theorem C20_no_shared_writes pins it (empty). The campaign runs mixed concurrent workloads of all operations under the Go race detector with GOMAXPROCS 1/2/4/16 and compares each result with its sequential run.",
         NOTE_COMMON + "PARTIAL by nature: the Go memory model, the completeness of the race detector and of the syntactic inventory (no alias analysis) are trusted; a theorem cannot exhibit a data race in the runtime.",
         "DESIGN.md section 5 C20"),
}

LEVELS = {}
checks = []
na = []
for p in props:
    pid = p["id"]
    if pid in CLAIMED:
        tech, text, note, ref = CLAIMED[pid]
        checks.append({
            "property_id": pid,
            "quick_cmd": "./check %s quick" % pid,
            "thorough_cmd": "./check %s thorough" % pid,
            "evidence_file": "/verif/evidence/%s.json" % pid,
            "replay_cmd_template": "./check %s --replay {path}" % pid,
            "engine": "coq-model+correspondence",
            "level_claimed": {"category": LEVELS.get(pid, "proof"), "text": text, "design_ref": ref},
            "level_note": note,
            "technique": tech,
        })
    else:
        na.append({"property_id": pid, "reason": "not yet claimed: the Coq model/theorems and correspondence campaign for this property are still being built (see DESIGN.md section 5 for the planned theorem); nothing is asserted about it yet"})

m = {
 "version": 1,
 "setup_cmd": "./check --setup",
 "hooks": {
   "guard": "verif",
   "enable": "go build -tags verif (harness module with replace github.com/keybase/saltpack => /repo)",
   "baseline_off_cmd": "cd /repo && GOFLAGS=-mod=mod GOPROXY=off GOSUMDB=off go test -vet=off -count=1 -timeout 25m ./...",
   "source_commits": [],
   "add_only": True,
 },
 "engines": [{"name": "coq-model+correspondence", "path": "/verif/check",
              "serves_properties": [c["property_id"] for c in checks],
              "kind_free_text": "Gallina model + theorems (coq/), constants/layouts regenerated from /repo (harness/cmd/gen), model extracted to OCaml (runner/) and run against the Go implementation by harness/cmd/corr"}],
 "checks": checks,
 "not_applicable": na,
 "notes": "See DESIGN.md. Known findings and fixed defects: known_findings.txt.",
}
import subprocess
try:
    out = subprocess.run(["git", "-C", "/repo", "log", "--format=%H %s"], capture_output=True, text=True).stdout
    m["hooks"]["source_commits"] = [l.split()[0] for l in out.splitlines() if "verif hook" in l]
except Exception:
    pass
json.dump(m, open(os.path.join(ROOT, "MANIFEST.json"), "w"), indent=1)
print("MANIFEST.json: %d checks, %d not claimed" % (len(checks), len(na)))
