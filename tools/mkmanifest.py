#!/usr/bin/env python3
"""Regenerates MANIFEST.json from the table below (keeps it schema-valid)."""
import json, os
ROOT = os.path.dirname(os.path.dirname(os.path.abspath(__file__)))
props = [json.loads(l) for l in open(os.path.join(ROOT, "properties.jsonl"))]

NOTE_COMMON = ("Trusted: Coq 8.16.1 kernel (vm_compute used, native_compute not), the gen translator, ExtrOcamlBasic extraction + OCaml runner glue, "
               "the Go harness; no axioms (Print Assumptions: closed under the global context). ")

# id -> (technique, level text, level note, design ref)
CLAIMED = {
 "C10": ("Coq proof (induction over blocks, positional-numeral inversion) + exhaustive/differential correspondence of the extracted model with encoding/basex",
         "Machine-checked theorems over the Gallina model of encoding/basex: encodeBlock is fixed-width positional base conversion, decode(encode x)=x for every byte string, strict decoding accepts only canonical strings (non-minimal lengths, foreign characters and overflowing values rejected), skip characters are exactly deletable, length helper = encoder output length. The model is the extracted code the harness runs against the Go package on every run (all 1-byte blocks, all short strings, every length 0..4*blocklen+1, mutated encodings).",
         NOTE_COMMON + "Go float64/math.Log2 length formulas are not modelled; they are compared exhaustively on the domain the code evaluates them on. math/big is trusted.",
         "DESIGN.md section 5 C10"),
 "C19": ("Coq proof (explicit bijections for Lemire rejection sampling and Fisher-Yates) + differential correspondence on the verif-tag hooks",
         "Machine-checked theorems over the Gallina model of rand.go: the two-stage rejection test equals low < 2^32 mod n; (k,t) -> ceil((k*2^32+thresh)/n)+t is a bijection from [0,n) x [0,floor(2^32/n)) onto the accepted 32-bit draws with output k (exact uniformity for every n < 2^32); the shuffle is Fisher-Yates on the accepted draws, which is a bijection from draw sequences onto all arrangements (permutation, surjective, injective), whatever the caller's order. The extracted model is run against csprngUint32n/csprngShuffle (exported under -tags verif) on boundary source values and on every draw sequence for n<=6.",
         NOTE_COMMON + "Identity-hiding clause (key bytes absent from the wire) is checked by the C19 campaign on real Seal/SigncryptSeal output once the encryption model is in place; secrecy of ciphertexts is NaCl's assumption.",
         "DESIGN.md section 5 C19"),
}

checks = []
na = []
for p in props:
    pid = p["id"]
    if pid in CLAIMED:
        tech, text, note, ref = CLAIMED[pid]
        checks.append({
            "property_id": pid,
            "quick_cmd": "./check %s quick" % pid,
            "thorough_cmd": "./check %s thorough" % pid,
            "evidence_file": "/verif/evidence/%s.json" % pid,
            "replay_cmd_template": "./check %s --replay {path}" % pid,
            "engine": "coq-model+correspondence",
            "level_claimed": {"category": "proof", "text": text, "design_ref": ref},
            "level_note": note,
            "technique": tech,
        })
    else:
        na.append({"property_id": pid, "reason": "not yet claimed: the Coq model/theorems and correspondence campaign for this property are still being built (see DESIGN.md section 5 for the planned theorem); nothing is asserted about it yet"})

m = {
 "version": 1,
 "setup_cmd": "./check --setup",
 "hooks": {
   "guard": "verif",
   "enable": "go build -tags verif (harness module with replace github.com/keybase/saltpack => /repo)",
   "baseline_off_cmd": "cd /repo && GOFLAGS=-mod=mod GOPROXY=off GOSUMDB=off go test -vet=off -count=1 -timeout 25m ./...",
   "source_commits": [],
   "add_only": True,
 },
 "engines": [{"name": "coq-model+correspondence", "path": "/verif/check",
              "serves_properties": [c["property_id"] for c in checks],
              "kind_free_text": "Gallina model + theorems (coq/), constants/layouts regenerated from /repo (harness/cmd/gen), model extracted to OCaml (runner/) and run against the Go implementation by harness/cmd/corr"}],
 "checks": checks,
 "not_applicable": na,
 "notes": "See DESIGN.md. Known findings and fixed defects: known_findings.txt.",
}
import subprocess
try:
    out = subprocess.run(["git", "-C", "/repo", "log", "--format=%H %s"], capture_output=True, text=True).stdout
    m["hooks"]["source_commits"] = [l.split()[0] for l in out.splitlines() if "verif hook" in l]
except Exception:
    pass
json.dump(m, open(os.path.join(ROOT, "MANIFEST.json"), "w"), indent=1)
print("MANIFEST.json: %d checks, %d not claimed" % (len(checks), len(na)))
