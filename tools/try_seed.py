#!/usr/bin/env python3
"""tools/try_seed.py <patch> <ID> [<ID> ...] — applies a seeded change to /repo, runs the
quick checks named, prints their VIOLATION lines / exit codes, and always restores /repo."""
import subprocess, sys, os
patch, ids = sys.argv[1], sys.argv[2:]
def sh(c, **k): return subprocess.run(c, shell=True, text=True, capture_output=True, **k)
r = sh("git -C /repo status --porcelain")
if r.stdout.strip():
    print("/repo is not clean:", r.stdout); sys.exit(2)
r = sh("git -C /repo apply %s" % patch)
if r.returncode != 0:
    print("patch does not apply:", r.stderr); sys.exit(2)
sh('rm -rf /verif/work/evidence.bak && cp -r /verif/evidence /verif/work/evidence.bak')
try:
    b = sh("cd /repo && GOFLAGS=-mod=mod GOPROXY=off GOSUMDB=off GOTOOLCHAIN=local go build ./... && GOFLAGS=-mod=mod GOPROXY=off GOSUMDB=off go test -vet=off -count=1 ./... 2>&1 | tail -3")
    print("build+tests with the change:", (b.stdout + b.stderr).strip().replace("\n", " | "))
    for pid in ids:
        c = sh("cd /verif && ./check %s quick" % pid)
        lines = [l for l in c.stdout.splitlines() if l.startswith("VIOLATION") or l.startswith("check:") or l.startswith("KNOWN")]
        print("== %s exit=%d" % (pid, c.returncode))
        for l in lines: print("   ", l)
        for l in c.stdout.splitlines():
            if l.startswith("VIOLATION"):
                p = l.split("replay=")[1].split()[0]
                try:
                    import json; o = json.load(open(p))
                    print("      ->", o.get("kind"), o.get("key"), (o.get("what") or str(o.get("broken_theorems_or_tie")))[:260])
                except Exception as e: print("      (replay unreadable)", e)
finally:
    sh('rm -rf /verif/evidence && mv /verif/work/evidence.bak /verif/evidence')
    sh("git -C /repo checkout -- . && git -C /repo clean -fdq -e verif_export.go")
    sh("cd /verif/harness && ./bin/gen /repo /verif/coq/gen")  # generated facts back to the clean tree
    print("restored:", sh("git -C /repo status --porcelain").stdout.strip() or "clean")
