#!/usr/bin/env python3-vt
import json, sys, glob, jsonschema
m = json.load(open('/verif/MANIFEST.json'))
jsonschema.validate(m, json.load(open('/root/.vp/MANIFEST.schema.json')))
print("manifest valid:", len(m["checks"]), "checks")
es = json.load(open('/root/.vp/EVIDENCE.schema.json'))
for c in m["checks"]:
    p = c["evidence_file"]
    try:
        e = json.load(open(p)); jsonschema.validate(e, es)
        cov = e["coverage"]
        print(" ", c["property_id"], "evidence valid: obligations", cov.get("obligations"), "discharged", cov.get("discharged"), "evals", cov.get("evaluations"), "violations", e.get("violations"))
    except Exception as ex:
        print(" ", c["property_id"], "EVIDENCE PROBLEM:", str(ex)[:200])
