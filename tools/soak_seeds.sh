#!/bin/bash
# soak_seeds.sh <seed>... — runs every quick check on the current tree under other seeds and reports any
# violation (a false-alarm hunt on a tree that is supposed to be clean). Evidence files are preserved.
cd /verif
rm -rf work/evidence.keep && cp -r evidence work/evidence.keep
for s in "$@"; do
  for i in $(seq -w 1 20); do
    out=$(VERIF_SEED=$s ./check C$i quick 2>&1 | grep "^VIOLATION\|^check:")
    if echo "$out" | grep -q VIOLATION; then echo "seed $s C$i: $out"; cp work/C$i/replay-1.json work/soak-seed$s-C$i.json; fi
  done
  echo "seed $s done"
done
rm -rf evidence && mv work/evidence.keep evidence
