module verifharness

go 1.22.0

toolchain go1.23.5

require (
	github.com/keybase/go-codec v0.0.0-20180928230036-164397562123
	github.com/keybase/saltpack v0.0.0
	golang.org/x/crypto v0.32.0
	golang.org/x/tools v0.29.0
)

require (
	golang.org/x/mod v0.22.0 // indirect
	golang.org/x/sync v0.10.0 // indirect
	golang.org/x/sys v0.29.0 // indirect
)

replace github.com/keybase/saltpack => /repo
