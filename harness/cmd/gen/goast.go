package main

// goast.go — serialises the bodies of a fixed list of /repo functions into the deep
// embedding of coq/model/GoLang.v (gen/GoAst.v).  Constants are folded with go/types,
// package-level error values and error-typed composite literals are marked, every
// arithmetic node carries the Go type of its result.  Constructs outside the subset
// become EUnsup/SUnsup (the evaluator gets stuck on them, and the equivalence theorems
// show it never does on the translated functions).

import (
	"fmt"
	"go/ast"
	"go/constant"
	"go/token"
	"go/types"
	"strings"

	"golang.org/x/tools/go/packages"
)

// functions translated: "pkg.Func" or "pkg.Recv_Method"
var astWhitelist = []string{
	"saltpack.checkChunkState",
	"saltpack.checkKnownVersion",
	"saltpack.CheckKnownMajorVersion",
	"saltpack.EncryptionHeader_validate",
	"saltpack.SigncryptionHeader_validate",
	"saltpack.SignatureHeader_validate",
	"saltpack.IsSaltpackBinarySlice",
	"saltpack.csprngUint32n",
	"saltpack.checkDecodedChunkState",
	"saltpack.attachedSignatureInput",
	"saltpack.detachedSignatureInput",
	"saltpack.detachedSignatureInputFromHash",
	"saltpack.computePayloadHash",
	"saltpack.computeSigncryptionSignatureInput",
	"saltpack.computePayloadAuthenticator",
	"saltpack.computeMACKeyReceiver",
	"saltpack.computeMACKeySingle",
	"saltpack.decryptStream_processBlock",
	"saltpack.signcryptOpenStream_processBlock",
	"saltpack.verifyStream_processBlock",
	"saltpack.nonceForChunkSecretBox",
	"saltpack.nonceForChunkSigncryption",
	"saltpack.nonceForMACKeyBoxV1",
	"saltpack.nonceForMACKeyBoxV2",
	"saltpack.nonceForPayloadKeyBox",
	"saltpack.nonceForPayloadKeyBoxV2",
	"saltpack.nonceForDerivedSharedKey",
	"saltpack.nonceForSenderKeySecretBox",
	"saltpack.encryptionBlockNumber_check",
}

// Stateful functions (GoLang2 semantics), in three further generated files so that an edit of one
// function re-checks only the proof files that import its group.
// gen/GoAstRecv.v: header processing and per-packet glue of the receivers
var astRecv = []string{
	"saltpack.decryptStream_tryVisibleReceivers",
	"saltpack.decryptStream_tryHiddenReceivers",
	"saltpack.decryptStream_processHeader",
	"saltpack.signcryptOpenStream_processHeader",
	"saltpack.signcryptOpenStream_tryBoxSecretKeys",
	"saltpack.signcryptOpenStream_trySharedSymmetricKeys",
	"saltpack.verifyStream_readHeader",
	"saltpack.verifyStream_getNextChunk",
	"saltpack.decryptStream_getNextChunk",
	"saltpack.signcryptOpenStream_getNextChunk",
	"saltpack.symmetricKeyFromSlice",
	"saltpack.rawBoxKeyFromSlice",
}

// gen/GoAstStreams.v: saltpack's reader adaptors
var astStreams = []string{
	"saltpack.chunkReader_Read",
	"saltpack.punctuatedReader_Read",
	"saltpack.punctuatedReader_ReadUntilPunctuation",
}

// gen/GoAstEnc.v: the write side of the armor layer (base-X stream encoder, armor encoder)
var astEnc = []string{
	"saltpack.armorEncoderStream_Write",
	"saltpack.armorEncoderStream_spaceAndOutputBuffer",
	"saltpack.armorEncoderStream_Close",
	"basex.encoder_Write",
	"basex.encoder_Close",
}

// gen/GoAstSend.v: the encryption sender
var astSend = []string{
	"saltpack.encryptStream_Write",
	"saltpack.encryptStream_Close",
	"saltpack.encryptStream_encryptBlock",
	"saltpack.encryptStream_init",
	"saltpack.checkEncryptReceivers",
	"saltpack.shuffleEncryptReceivers",
	"saltpack.csprngShuffle",
}

// gen/GoAstSign.v: the signing and signcryption senders
var astSign = []string{
	"saltpack.newSignAttachedStream",
	"saltpack.signAttachedStream_Write",
	"saltpack.signAttachedStream_Close",
	"saltpack.signAttachedStream_signBlock",
	"saltpack.signAttachedStream_computeSig",
	"saltpack.makeSignatureBlock",
	"saltpack.checkSignBlockRead",
	"saltpack.newSignDetachedStream",
	"saltpack.signDetachedStream_Write",
	"saltpack.signDetachedStream_Close",
	"saltpack.signcryptSealStream_Write",
	"saltpack.signcryptSealStream_signcryptBlock",
	"saltpack.signcryptSealStream_Close",
	"saltpack.signcryptSealStream_init",
	"saltpack.derivedEphemeralKeyFromBoxKeys",
	"saltpack.keyIdentifierFromDerivedKey",
	"saltpack.receiverBoxKey_makeReceiverKeys",
	"saltpack.ReceiverSymmetricKey_makeReceiverKeys",
	"saltpack.checkSigncryptReceiverCount",
	"saltpack.checkSigncryptReceivers",
}

// gen/GoAstDearmor.v: the read side of the armor layer and of the base-X stream decoder
var astDearmor = []string{
	"saltpack.framedDecoderStream_loadHeader",
	"saltpack.framedDecoderStream_Read",
	"saltpack.framedDecoderStream_consumeUntilEOF",
	"saltpack.framedDecoderStream_isValidByteSequence",
	"saltpack.framedDecoderStream_toASCII",
	"saltpack.framedDecoderStream_GetHeader",
	"saltpack.framedDecoderStream_GetFooter",
	"saltpack.framedDecoderStream_GetBrand",
	"basex.decoder_Read",
	"basex.filteringReader_Read",
	"basex.Encoding_decode",
	"basex.Encoding_Decode",
	"basex.Encoding_Encode",
	"basex.Encoding_getByteType",
	"basex.Encoding_IsValidByte",
	"basex.Encoding_hasSkipBytes",
}

// gen/GoAstFrame.v: armor frames (frame.go, armor62.go) and the armored classifier
var astFrame = []string{
	"saltpack.pop",
	"saltpack.shift",
	"saltpack.makeFrame",
	"saltpack.MakeArmorHeader",
	"saltpack.MakeArmorFooter",
	"saltpack.getStringForType",
	"saltpack.parseFrame",
	"saltpack.CheckArmor62Frame",
	"saltpack.CheckArmor62",
	"saltpack.IsSaltpackArmoredPrefix",
}

// gen/GoAstOpen.v: the entry-point glue of the receivers (header reading, packet reading, detached verification)
var astOpen = []string{
	"saltpack.decryptStream_readHeader",
	"saltpack.readEncryptionBlock",
	"saltpack.signcryptOpenStream_readHeader",
	"saltpack.readSignatureBlock",
	"saltpack.assertEndOfStream",
	"saltpack.NewDecryptStream",
	"saltpack.Open",
	"saltpack.NewSigncryptOpenStream",
	"saltpack.SigncryptOpen",
	"saltpack.newVerifyStream",
	"saltpack.NewVerifyStream",
	"saltpack.Verify",
	"saltpack.VerifyDetachedReader",
	"saltpack.VerifyDetached",
	"saltpack.computeMACKeySender",
	"saltpack.computeMACKeysSender",
}

// gen/GoAstEntry.v: the one-shot and constructor entry points of the senders, and the stream classifiers
var astEntry = []string{
	"saltpack.newEncryptStream",
	"saltpack.NewEncryptStream",
	"saltpack.seal",
	"saltpack.Seal",
	"saltpack.receiversToEphemeralKeyCreator",
	"saltpack.NewSignStream",
	"saltpack.Sign",
	"saltpack.NewSignDetachedStream",
	"saltpack.SignDetached",
	"saltpack.signToStream",
	"saltpack.newSigncryptSealStream",
	"saltpack.NewSigncryptSealStream",
	"saltpack.signcryptSeal",
	"saltpack.SigncryptSeal",
	"saltpack.IsSaltpackBinary",
	"saltpack.IsSaltpackArmored",
	"saltpack.ClassifyStream",
	"saltpack.ClassifyEncryptedStreamAndMakeDecoder",
}

type astGen struct {
	info    *types.Info
	pkg     *types.Package
	results []string // names of the named results (for bare returns)
}

func coqStr(s string) string {
	return "\"" + strings.ReplaceAll(s, "\"", "\"\"") + "\""
}

func printable(s string) bool {
	for _, c := range []byte(s) {
		if c < 0x20 || c > 0x7e {
			return false
		}
	}
	return true
}

func (g *astGen) typeName(t types.Type) string {
	if t == nil {
		return "?"
	}
	switch u := t.(type) {
	case *types.Basic:
		n := u.Name()
		if strings.HasPrefix(n, "untyped ") {
			return strings.TrimPrefix(n, "untyped ")
		}
		return n
	case *types.Named:
		if b, ok := u.Underlying().(*types.Basic); ok {
			return b.Name()
		}
		return u.Obj().Name()
	case *types.Slice:
		if b, ok := u.Elem().(*types.Basic); ok && (b.Kind() == types.Byte || b.Kind() == types.Uint8) {
			return "[]byte"
		}
		return "[]" + g.typeName(u.Elem())
	case *types.Pointer:
		return g.typeName(u.Elem())
	}
	return t.String()
}

// recvName: the declared name of a method receiver's type (not its underlying basic type)
func (g *astGen) recvName(t types.Type) string {
	if p, ok := t.(*types.Pointer); ok {
		t = p.Elem()
	}
	if n, ok := t.(*types.Named); ok {
		return n.Obj().Name()
	}
	return g.typeName(t)
}

func isErrorType(t types.Type) bool {
	if t == nil {
		return false
	}
	et := types.Universe.Lookup("error").Type().Underlying().(*types.Interface)
	return types.Implements(t, et) || types.Implements(types.NewPointer(t), et)
}

var opNames = map[token.Token]string{
	token.EQL: "OEq", token.NEQ: "ONe", token.LSS: "OLt", token.LEQ: "OLe", token.GTR: "OGt", token.GEQ: "OGe",
	token.LAND: "OAnd", token.LOR: "OOr", token.ADD: "OAdd", token.SUB: "OSub", token.MUL: "OMul", token.QUO: "ODiv",
	token.REM: "OMod", token.AND: "OBand", token.OR: "OBor", token.XOR: "OXor", token.SHL: "OShl", token.SHR: "OShr",
	token.AND_NOT: "OAndNot",
	token.AND_NOT_ASSIGN: "OAndNot", token.OR_ASSIGN: "OBor", token.AND_ASSIGN: "OBand", token.XOR_ASSIGN: "OXor",
	token.ADD_ASSIGN: "OAdd", token.SUB_ASSIGN: "OSub", token.MUL_ASSIGN: "OMul", token.INC: "OAdd", token.DEC: "OSub",
}

func (g *astGen) callName(fun ast.Expr) string {
	switch f := fun.(type) {
	case *ast.Ident:
		return f.Name
	case *ast.SelectorExpr:
		return g.callName(f.X) + "." + f.Sel.Name
	case *ast.ParenExpr:
		return g.callName(f.X)
	}
	return "?"
}

func (g *astGen) expr(e ast.Expr) string {
	if tv, ok := g.info.Types[e]; ok && tv.Value != nil {
		switch tv.Value.Kind() {
		case constant.Int:
			return fmt.Sprintf("(EInt (%s))", tv.Value.ExactString())
		case constant.Bool:
			return fmt.Sprintf("(EBool %v)", constant.BoolVal(tv.Value))
		case constant.String:
			s := constant.StringVal(tv.Value)
			if printable(s) {
				return fmt.Sprintf("(EStr %s)", coqStr(s))
			}
			var zs []string
			for _, c := range []byte(s) {
				zs = append(zs, fmt.Sprint(int(c)))
			}
			return fmt.Sprintf("(EBytesLit [%s])", strings.Join(zs, "; "))
		}
	}
	switch x := e.(type) {
	case *ast.ParenExpr:
		return g.expr(x.X)
	case *ast.Ident:
		if x.Name == "nil" {
			return "ENil"
		}
		if x.Name == "true" || x.Name == "false" {
			return fmt.Sprintf("(EBool %s)", x.Name)
		}
		if obj := g.info.Uses[x]; obj != nil {
			if v, ok := obj.(*types.Var); ok && v.Parent() == v.Pkg().Scope() && isErrorType(v.Type()) {
				return fmt.Sprintf("(EErrVar %s)", coqStr(x.Name))
			}
			// a package-level function used as a VALUE (passed as an argument): represented by its name; the call
			// through the parameter that receives it is an extern of the callee
			if fn, ok := obj.(*types.Func); ok && fn.Pkg() != nil && fn.Parent() == fn.Pkg().Scope() {
				return fmt.Sprintf("(EStr %s)", coqStr("func:"+x.Name))
			}
		}
		return fmt.Sprintf("(EVar %s)", coqStr(x.Name))
	case *ast.SelectorExpr:
		if id, ok := x.X.(*ast.Ident); ok {
			if _, isPkg := g.info.Uses[id].(*types.PkgName); isPkg {
				if obj := g.info.Uses[x.Sel]; obj != nil {
					if v, ok := obj.(*types.Var); ok && isErrorType(v.Type()) {
						return fmt.Sprintf("(EErrVar %s)", coqStr(id.Name+"."+x.Sel.Name))
					}
				}
				return fmt.Sprintf("(EPkg %s)", coqStr(id.Name+"."+x.Sel.Name))
			}
		}
		if obj := g.info.Uses[x.Sel]; obj != nil {
			if v, ok := obj.(*types.Var); ok && !v.IsField() && v.Pkg() != nil && v.Parent() == v.Pkg().Scope() && isErrorType(v.Type()) {
				return fmt.Sprintf("(EErrVar %s)", coqStr(g.callName(x)))
			}
		}
		return fmt.Sprintf("(ESel %s %s)", g.expr(x.X), coqStr(x.Sel.Name))
	case *ast.IndexExpr:
		if _, isMap := g.info.TypeOf(x.X).Underlying().(*types.Map); isMap {
			return fmt.Sprintf("(EMapGet %s %s)", g.expr(x.X), g.expr(x.Index))
		}
		return fmt.Sprintf("(EIdx %s %s)", g.expr(x.X), g.expr(x.Index))
	case *ast.SliceExpr:
		if x.Slice3 {
			return "(EUnsup \"3-index slice\")"
		}
		lo, hi := "None", "None"
		if x.Low != nil {
			lo = "(Some " + g.expr(x.Low) + ")"
		}
		if x.High != nil {
			hi = "(Some " + g.expr(x.High) + ")"
		}
		return fmt.Sprintf("(ESlice %s %s %s)", g.expr(x.X), lo, hi)
	case *ast.BinaryExpr:
		op, ok := opNames[x.Op]
		if !ok {
			return fmt.Sprintf("(EUnsup %s)", coqStr("operator "+x.Op.String()))
		}
		return fmt.Sprintf("(EBin %s %s %s %s)", op, coqStr(g.typeName(g.info.TypeOf(e))), g.expr(x.X), g.expr(x.Y))
	case *ast.StarExpr:
		return g.expr(x.X)
	case *ast.UnaryExpr:
		switch x.Op {
		case token.NOT:
			return fmt.Sprintf("(ENot %s)", g.expr(x.X))
		case token.SUB:
			return fmt.Sprintf("(ENeg %s %s)", coqStr(g.typeName(g.info.TypeOf(e))), g.expr(x.X))
		case token.AND:
			if id, ok := x.X.(*ast.Ident); ok {
				return fmt.Sprintf("(EAddr %s)", coqStr(id.Name))
			}
			if cl, ok := x.X.(*ast.CompositeLit); ok {
				// &T{...}: a fresh object; objects are values in the embedding (a method's receiver is
				// passed and written back by value), so the pointer to a fresh literal is the literal
				return g.expr(cl)
			}
			return fmt.Sprintf("(EUnsup %s)", coqStr("address-of"))
		}
		return fmt.Sprintf("(EUnsup %s)", coqStr("unary "+x.Op.String()))
	case *ast.CallExpr:
		// conversion?
		if tv, ok := g.info.Types[x.Fun]; ok && tv.IsType() && len(x.Args) == 1 {
			// (*[N]byte)(&x), (*[N]byte)(x): the same bytes
			if pt, ok := tv.Type.(*types.Pointer); ok {
				if _, ok := pt.Elem().Underlying().(*types.Array); ok {
					arg := x.Args[0]
					if u, ok := arg.(*ast.UnaryExpr); ok && u.Op == token.AND {
						arg = u.X
					}
					return g.expr(arg)
				}
			}
			if n, ok := tv.Type.(*types.Named); ok && isErrorType(n) {
				return fmt.Sprintf("(ELit %s [(\"0\", %s)])", coqStr(n.Obj().Name()), g.expr(x.Args[0]))
			}
			if _, ok := tv.Type.Underlying().(*types.Array); ok {
				return g.expr(x.Args[0])
			}
			if n, ok := tv.Type.(*types.Named); ok {
				if sl, ok := n.Underlying().(*types.Slice); ok {
					if b, ok := sl.Elem().(*types.Basic); ok && b.Kind() == types.Byte {
						return g.expr(x.Args[0])
					}
				}
			}
			return fmt.Sprintf("(EConv %s %s)", coqStr(g.typeName(tv.Type)), g.expr(x.Args[0]))
		}
		if id, ok := x.Fun.(*ast.Ident); ok && id.Name == "make" && len(x.Args) >= 1 {
			if _, isMap := g.info.TypeOf(x.Args[0]).Underlying().(*types.Map); isMap {
				return "(ECall \"makemap\" [])"
			}
		}
		if id, ok := x.Fun.(*ast.Ident); ok && id.Name == "make" && len(x.Args) == 3 {
			// make([]T, n, cap): the capacity is not observable; []byte as with two arguments, another
			// element type only with length 0 (the empty list)
			if sl, ok := g.info.TypeOf(x.Args[0]).Underlying().(*types.Slice); ok {
				if b, isB := sl.Elem().Underlying().(*types.Basic); isB && b.Kind() == types.Byte {
					return fmt.Sprintf("(ECall \"make\" [%s])", g.expr(x.Args[1]))
				}
				if tv, ok := g.info.Types[x.Args[1]]; ok && tv.Value != nil && tv.Value.String() == "0" {
					return "(ECall \"makemap\" [])"
				}
			}
		}
		if id, ok := x.Fun.(*ast.Ident); ok && id.Name == "make" && len(x.Args) == 2 {
			return fmt.Sprintf("(ECall \"make\" [%s])", g.expr(x.Args[1]))
		}
		if id, ok := x.Fun.(*ast.Ident); ok && id.Name == "append" && len(x.Args) >= 2 {
			var as []string
			for _, a := range x.Args {
				as = append(as, g.expr(a))
			}
			nm := "append"
			if x.Ellipsis.IsValid() {
				nm = "append..."
			}
			return fmt.Sprintf("(ECall %s [%s])", coqStr(nm), strings.Join(as, "; "))
		}
		if id, ok := x.Fun.(*ast.Ident); ok && id.Name == "len" && len(x.Args) == 1 {
			return fmt.Sprintf("(ELen %s)", g.expr(x.Args[0]))
		}
		var args []string
		// a method call passes its receiver first
		name := g.callName(x.Fun)
		if sel, ok := x.Fun.(*ast.SelectorExpr); ok {
			if s := g.info.Selections[sel]; s != nil && s.Kind() == types.MethodVal {
				args = append(args, g.expr(sel.X))
				name = g.recvName(s.Recv()) + "." + sel.Sel.Name
			}
		}
		for _, a := range x.Args {
			args = append(args, g.expr(a))
		}
		return fmt.Sprintf("(ECall %s [%s])", coqStr(name), strings.Join(args, "; "))
	case *ast.CompositeLit:
		t := g.info.TypeOf(x)
		tn := g.typeName(t)
		if sl, ok := t.Underlying().(*types.Slice); ok && len(x.Elts) == 0 {
			if b, isB := sl.Elem().Underlying().(*types.Basic); !isB || b.Kind() != types.Byte {
				// []T{} (T not byte): the empty list. In the untyped value domain of GoLang.v an empty
				// map and an empty non-byte slice are both VList [], which the builtin "makemap" yields.
				return "(ECall \"makemap\" [])"
			}
		}
		var fields []string
		st, _ := t.Underlying().(*types.Struct)
		for i, el := range x.Elts {
			if kv, ok := el.(*ast.KeyValueExpr); ok {
				fields = append(fields, fmt.Sprintf("(%s, %s)", coqStr(g.callName(kv.Key)), g.expr(kv.Value)))
			} else if st != nil && i < st.NumFields() {
				fields = append(fields, fmt.Sprintf("(%s, %s)", coqStr(st.Field(i).Name()), g.expr(el)))
			} else {
				fields = append(fields, fmt.Sprintf("(%s, %s)", coqStr(fmt.Sprint(i)), g.expr(el)))
			}
		}
		// a keyed struct literal leaves the omitted fields at their zero values: they are listed after the
		// given ones, in the order of the struct declaration (blank fields such as the codec's `_struct` skipped)
		if st != nil && len(x.Elts) > 0 {
			if _, keyed := x.Elts[0].(*ast.KeyValueExpr); keyed {
				given := map[string]bool{}
				for _, el := range x.Elts {
					if kv, ok := el.(*ast.KeyValueExpr); ok {
						given[g.callName(kv.Key)] = true
					}
				}
				for i := 0; i < st.NumFields(); i++ {
					f := st.Field(i)
					if f.Name() == "_" || f.Name() == "_struct" || given[f.Name()] {
						continue
					}
					if z := g.zeroExpr(f.Type(), 0); z != "" {
						fields = append(fields, fmt.Sprintf("(%s, %s)", coqStr(f.Name()), z))
					}
				}
			}
		}
		return fmt.Sprintf("(ELit %s [%s])", coqStr(tn), strings.Join(fields, "; "))
	}
	return fmt.Sprintf("(EUnsup %s)", coqStr(fmt.Sprintf("%T", e)))
}

// zeroExpr renders the zero value of a type
func (g *astGen) zeroExpr(t types.Type, depth int) string {
	switch u := t.Underlying().(type) {
	case *types.Basic:
		switch {
		case u.Info()&types.IsBoolean != 0:
			return "(EBool false)"
		case u.Info()&types.IsString != 0:
			return "(EStr \"\")"
		case u.Info()&types.IsNumeric != 0:
			return "(EInt (0))"
		}
	case *types.Array:
		if b, ok := u.Elem().Underlying().(*types.Basic); ok && b.Kind() == types.Byte {
			return fmt.Sprintf("(ECall \"make\" [(EInt (%d))])", u.Len())
		}
	case *types.Struct:
		// (a struct of another package, e.g. bytes.Buffer, is opaque: its field stays absent and is only
		// touched through externs)
		if nt, ok := t.(*types.Named); ok && nt.Obj().Pkg() != g.pkg {
			return ""
		}
		if depth < 3 {
			var fs []string
			for i := 0; i < u.NumFields(); i++ {
				f := u.Field(i)
				if f.Name() == "_" || f.Name() == "_struct" {
					continue
				}
				if z := g.zeroExpr(f.Type(), depth+1); z != "" {
					fs = append(fs, fmt.Sprintf("(%s, %s)", coqStr(f.Name()), z))
				}
			}
			return fmt.Sprintf("(ELit %s [%s])", coqStr(g.typeName(t)), strings.Join(fs, "; "))
		}
	}
	return "ENil" // slices, maps, pointers, interfaces, functions, channels
}

func (g *astGen) block(b *ast.BlockStmt) string {
	if b == nil {
		return "[]"
	}
	return g.stmts(b.List)
}

func (g *astGen) stmts(l []ast.Stmt) string {
	var out []string
	for _, s := range l {
		out = append(out, g.stmt(s))
	}
	return "[" + strings.Join(out, ";\n      ") + "]"
}

func (g *astGen) initStmts(s ast.Stmt) string {
	if s == nil {
		return "[]"
	}
	return "[" + g.stmt(s) + "]"
}

// lval renders an assignable expression as a glval
func (g *astGen) lval(e ast.Expr) (string, bool) {
	switch x := e.(type) {
	case *ast.ParenExpr:
		return g.lval(x.X)
	case *ast.Ident:
		return fmt.Sprintf("(LVar %s)", coqStr(x.Name)), true
	case *ast.StarExpr:
		return g.lval(x.X)
	case *ast.SelectorExpr:
		if inner, ok := g.lval(x.X); ok {
			return fmt.Sprintf("(LField %s %s)", inner, coqStr(x.Sel.Name)), true
		}
	case *ast.IndexExpr:
		if inner, ok := g.lval(x.X); ok {
			if _, isMap := g.info.TypeOf(x.X).Underlying().(*types.Map); isMap {
				return fmt.Sprintf("(LMapIndex %s %s)", inner, g.expr(x.Index)), true
			}
			return fmt.Sprintf("(LIndex %s %s)", inner, g.expr(x.Index)), true
		}
	}
	return "", false
}

func (g *astGen) lhsNames(l []ast.Expr) ([]string, bool) {
	var out []string
	for _, e := range l {
		id, ok := e.(*ast.Ident)
		if !ok {
			return nil, false
		}
		out = append(out, coqStr(id.Name))
	}
	return out, true
}

func (g *astGen) stmt(s ast.Stmt) string {
	switch x := s.(type) {
	case *ast.ReturnStmt:
		var es []string
		var pre []string
		for i, e := range x.Results {
			// return &x.f: objects are values in the embedding; the address of a field is the address of a
			// fresh variable holding the field's value at this point:  a'i := x.f; return &a'i
			if u, ok := e.(*ast.UnaryExpr); ok && u.Op == token.AND {
				if sel, ok := u.X.(*ast.SelectorExpr); ok {
					tmp := fmt.Sprintf("a'%d", i)
					pre = append(pre, fmt.Sprintf("SAssign [%s] [%s]", coqStr(tmp), g.expr(sel)))
					es = append(es, fmt.Sprintf("(EAddr %s)", coqStr(tmp)))
					continue
				}
			}
			es = append(es, g.expr(e))
		}
		if len(pre) > 0 {
			return strings.Join(pre, ";\n      ") + fmt.Sprintf(";\n      SReturn [%s]", strings.Join(es, "; "))
		}
		if len(x.Results) == 1 {
			// return f(args) with a multi-result callee: desugared into  r'0, r'1 := f(args); return r'0, r'1
			// (the apostrophe cannot occur in a Go identifier)
			if c, ok := x.Results[0].(*ast.CallExpr); ok {
				if tup, ok := g.info.TypeOf(c).(*types.Tuple); ok && tup.Len() > 1 {
					var names, vars []string
					for i := 0; i < tup.Len(); i++ {
						names = append(names, coqStr(fmt.Sprintf("r'%d", i)))
						vars = append(vars, fmt.Sprintf("(EVar %s)", coqStr(fmt.Sprintf("r'%d", i))))
					}
					return fmt.Sprintf("SAssign [%s] [%s];\n      SReturn [%s]", strings.Join(names, "; "), es[0], strings.Join(vars, "; "))
				}
				// return x.m(args) where m has a pointer receiver: the call may change x, which only a
				// statement-level call can write back:  r'0 := x.m(args); return r'0
				if sel, ok := c.Fun.(*ast.SelectorExpr); ok {
					if fn, ok := g.info.Uses[sel.Sel].(*types.Func); ok {
						if sig, ok := fn.Type().(*types.Signature); ok && sig.Recv() != nil && sig.Results().Len() == 1 {
							if _, isPtr := sig.Recv().Type().(*types.Pointer); isPtr && fn.Pkg() == g.pkg {
								return fmt.Sprintf("SAssign [%s] [%s];\n      SReturn [(EVar %s)]", coqStr("r'0"), es[0], coqStr("r'0"))
							}
						}
					}
				}
			}
		}
		if len(x.Results) == 0 {
			if len(g.results) == 0 {
				return "SReturn []"
			}
			var rs []string
			for _, r := range g.results {
				rs = append(rs, fmt.Sprintf("(EVar %s)", coqStr(r)))
			}
			return fmt.Sprintf("SReturn [%s]", strings.Join(rs, "; "))
		}
		return fmt.Sprintf("SReturn [%s]", strings.Join(es, "; "))
	case *ast.ExprStmt:
		if c, ok := x.X.(*ast.CallExpr); ok {
			if id, ok := c.Fun.(*ast.Ident); ok && id.Name == "panic" {
				return "SPanic (EStr \"panic\")"
			}
			// f(x[lo:hi], args...): the callee fills the window of the local array x
			if len(c.Args) >= 1 {
				if sl, ok := c.Args[0].(*ast.SliceExpr); ok && !sl.Slice3 {
					if id, ok := sl.X.(*ast.Ident); ok {
						name := g.callName(c.Fun)
						if sel, ok := c.Fun.(*ast.SelectorExpr); ok {
							if s := g.info.Selections[sel]; s != nil && s.Kind() == types.MethodVal {
								name = g.recvName(s.Recv()) + "." + sel.Sel.Name
							}
						}
						lo, hi := "None", "None"
						if sl.Low != nil {
							lo = "(Some " + g.expr(sl.Low) + ")"
						}
						if sl.High != nil {
							hi = "(Some " + g.expr(sl.High) + ")"
						}
						var as []string
						for _, a := range c.Args[1:] {
							as = append(as, g.expr(a))
						}
						return fmt.Sprintf("SSliceCall %s %s %s %s [%s]", coqStr(name), coqStr(id.Name), lo, hi, strings.Join(as, "; "))
					}
				}
			}
		}
		return fmt.Sprintf("SExpr %s", g.expr(x.X))
	case *ast.IfStmt:
		el := "[]"
		switch e := x.Else.(type) {
		case *ast.BlockStmt:
			el = g.block(e)
		case *ast.IfStmt:
			el = "[" + g.stmt(e) + "]"
		}
		// if m[k] { ... } with a bool-valued map (Go's set idiom) and no init statement: m[k] is the stored
		// value when the key is present and false (the zero value) when it is absent, i.e.
		//    v, ok := m[k]; if ok && v { ... }
		// which is what is emitted (the apostrophe cannot occur in a Go identifier)
		if ix, ok := x.Cond.(*ast.IndexExpr); ok && x.Init == nil {
			if mt, ok := g.info.TypeOf(ix.X).Underlying().(*types.Map); ok {
				if b, ok := mt.Elem().Underlying().(*types.Basic); ok && b.Kind() == types.Bool {
					return fmt.Sprintf("SIf [SMapLookup \"v'\" \"ok'\" %s %s] (EBin OAnd \"bool\" (EVar \"ok'\") (EVar \"v'\"))\n      %s\n      %s",
						g.expr(ix.X), g.expr(ix.Index), g.block(x.Body), el)
				}
			}
		}
		return fmt.Sprintf("SIf %s %s\n      %s\n      %s", g.initStmts(x.Init), g.expr(x.Cond), g.block(x.Body), el)
	case *ast.SwitchStmt:
		tag := "None"
		if x.Tag != nil {
			tag = "(Some " + g.expr(x.Tag) + ")"
		}
		var cases []string
		dflt := "None"
		// a clause ending in `fallthrough` continues with the statements of the next clause: its body is
		// emitted as its own statements followed by the next clause's (computed from the last clause up)
		bodies := make([][]ast.Stmt, len(x.Body.List))
		for i := len(x.Body.List) - 1; i >= 0; i-- {
			cc := x.Body.List[i].(*ast.CaseClause)
			body := cc.Body
			if n := len(body); n > 0 {
				if br, ok := body[n-1].(*ast.BranchStmt); ok && br.Tok == token.FALLTHROUGH {
					if i+1 >= len(x.Body.List) {
						return "SUnsup \"fallthrough\""
					}
					body = append(append([]ast.Stmt{}, body[:n-1]...), bodies[i+1]...)
				}
			}
			for _, st := range body {
				if br, ok := st.(*ast.BranchStmt); ok && br.Tok == token.FALLTHROUGH {
					return "SUnsup \"fallthrough\""
				}
			}
			bodies[i] = body
		}
		for i, c := range x.Body.List {
			cc := c.(*ast.CaseClause)
			if cc.List == nil {
				dflt = "(Some " + g.stmts(bodies[i]) + ")"
				continue
			}
			var ls []string
			for _, e := range cc.List {
				ls = append(ls, g.expr(e))
			}
			cases = append(cases, fmt.Sprintf("([%s], %s)", strings.Join(ls, "; "), g.stmts(bodies[i])))
		}
		return fmt.Sprintf("SSwitch %s %s\n      [%s]\n      %s", g.initStmts(x.Init), tag, strings.Join(cases, ";\n       "), dflt)
	case *ast.AssignStmt:
		if len(x.Lhs) == 1 && len(x.Rhs) == 1 {
			if ix, ok := x.Lhs[0].(*ast.IndexExpr); ok {
				_, isMap := g.info.TypeOf(ix.X).Underlying().(*types.Map)
				if id, ok := ix.X.(*ast.Ident); ok && !isMap {
					op := "None"
					if x.Tok != token.ASSIGN {
						o, ok := opNames[x.Tok]
						if !ok {
							return "SUnsup \"assignment operator\""
						}
						op = "(Some " + o + ")"
					}
					return fmt.Sprintf("SIdxOp %s %s %s %s", coqStr(id.Name), g.expr(ix.Index), op, g.expr(x.Rhs[0]))
				}
			}
		}
		if len(x.Lhs) == 2 && len(x.Rhs) == 1 {
			if ix, ok := x.Rhs[0].(*ast.IndexExpr); ok {
				if _, isMap := g.info.TypeOf(ix.X).Underlying().(*types.Map); isMap {
					if names, ok := g.lhsNames(x.Lhs); ok {
						return fmt.Sprintf("SMapLookup %s %s %s %s", names[0], names[1], g.expr(ix.X), g.expr(ix.Index))
					}
				}
			}
		}
		if x.Tok == token.ASSIGN || x.Tok == token.DEFINE {
			names, ok := g.lhsNames(x.Lhs)
			if !ok {
				var ls []string
				for _, l := range x.Lhs {
					lv, ok := g.lval(l)
					if !ok {
						return "SUnsup \"assignment target\""
					}
					ls = append(ls, lv)
				}
				var es []string
				for _, e := range x.Rhs {
					es = append(es, g.expr(e))
				}
				return fmt.Sprintf("SAssignL [%s] [%s]", strings.Join(ls, "; "), strings.Join(es, "; "))
			}
			var es []string
			for _, e := range x.Rhs {
				es = append(es, g.expr(e))
			}
			return fmt.Sprintf("SAssign [%s] [%s]", strings.Join(names, "; "), strings.Join(es, "; "))
		}
		if op, ok := opNames[x.Tok]; ok && len(x.Lhs) == 1 && len(x.Rhs) == 1 {
			if id, ok := x.Lhs[0].(*ast.Ident); ok {
				return fmt.Sprintf("SOpAssign %s %s %s %s", coqStr(id.Name), op, coqStr(g.typeName(g.info.TypeOf(id))), g.expr(x.Rhs[0]))
			}
			if lv, ok := g.lval(x.Lhs[0]); ok {
				return fmt.Sprintf("SOpAssignL %s %s %s %s", lv, op, coqStr(g.typeName(g.info.TypeOf(x.Lhs[0]))), g.expr(x.Rhs[0]))
			}
		}
		return "SUnsup \"assignment operator\""
	case *ast.IncDecStmt:
		if id, ok := x.X.(*ast.Ident); ok {
			return fmt.Sprintf("SOpAssign %s %s %s (EInt 1)", coqStr(id.Name), opNames[x.Tok], coqStr(g.typeName(g.info.TypeOf(id))))
		}
		if lv, ok := g.lval(x.X); ok {
			return fmt.Sprintf("SOpAssignL %s %s %s (EInt 1)", lv, opNames[x.Tok], coqStr(g.typeName(g.info.TypeOf(x.X))))
		}
		return "SUnsup \"inc/dec target\""
	case *ast.DeclStmt:
		gd, ok := x.Decl.(*ast.GenDecl)
		if ok && gd.Tok == token.VAR && len(gd.Specs) == 1 {
			vs := gd.Specs[0].(*ast.ValueSpec)
			if len(vs.Names) == 1 && len(vs.Values) == 0 {
				if at, ok := g.info.TypeOf(vs.Type).Underlying().(*types.Array); ok {
					if b, ok := at.Elem().(*types.Basic); ok && b.Kind() == types.Byte {
						return fmt.Sprintf("SAssign [%s] [(ECall \"make\" [(EInt (%d))])]", coqStr(vs.Names[0].Name), at.Len())
					}
				}
				return fmt.Sprintf("SVar %s %s", coqStr(vs.Names[0].Name), coqStr(g.typeName(g.info.TypeOf(vs.Type))))
			}
			if len(vs.Names) == 1 && len(vs.Values) == 1 {
				return fmt.Sprintf("SAssign [%s] [%s]", coqStr(vs.Names[0].Name), g.expr(vs.Values[0]))
			}
			if len(vs.Names) > 1 && len(vs.Values) == 0 {
				// var a, b T  ==>  var a T; var b T
				if _, isArr := g.info.TypeOf(vs.Type).Underlying().(*types.Array); !isArr {
					var ds []string
					for _, n := range vs.Names {
						ds = append(ds, fmt.Sprintf("SVar %s %s", coqStr(n.Name), coqStr(g.typeName(g.info.TypeOf(vs.Type)))))
					}
					return strings.Join(ds, ";\n      ")
				}
			}
		}
		return "SUnsup \"declaration\""
	case *ast.RangeStmt:
		k, v := "_", "_"
		if id, ok := x.Key.(*ast.Ident); ok {
			k = id.Name
		}
		if id, ok := x.Value.(*ast.Ident); ok {
			v = id.Name
		}
		return fmt.Sprintf("SRange %s %s %s\n      %s", coqStr(k), coqStr(v), g.expr(x.X), g.block(x.Body))
	case *ast.ForStmt:
		if x.Init == nil && x.Post == nil && x.Cond != nil {
			return fmt.Sprintf("SFor %s\n      %s", g.expr(x.Cond), g.block(x.Body))
		}
		if x.Cond != nil {
			// for init; cond; post { body }  ==>  init; for cond { body; post }
			body := g.block(x.Body)
			post := "[]"
			if x.Post != nil {
				post = "[" + g.stmt(x.Post) + "]"
			}
			loop := fmt.Sprintf("SFor %s\n      (%s ++ %s)", g.expr(x.Cond), body, post)
			if x.Init != nil {
				return fmt.Sprintf("SIf [%s] (EBool true) [%s] []", g.stmt(x.Init), loop)
			}
			return loop
		}
		if x.Init == nil && x.Post == nil && x.Cond == nil {
			return fmt.Sprintf("SFor (EBool true)\n      %s", g.block(x.Body))
		}
		return "SUnsup \"for without condition\""
	case *ast.BranchStmt:
		if x.Label == nil && x.Tok == token.BREAK {
			return "SBreak"
		}
		if x.Label == nil && x.Tok == token.CONTINUE {
			return "SContinue"
		}
		return "SUnsup \"labelled branch / goto\""
	case *ast.BlockStmt:
		return fmt.Sprintf("SIf [] (EBool true) %s []", g.block(x))
	case *ast.EmptyStmt:
		return "SIf [] (EBool true) [] []"
	}
	return fmt.Sprintf("SUnsup %s", coqStr(fmt.Sprintf("%T", s)))
}

func genGoAst(pkgs []*packages.Package, astWhitelist []string) string {
	o := &out{}
	o.add("(* GENERATED from /repo by harness/cmd/gen (goast.go) — do not edit.")
	o.add("   The bodies of the listed functions as terms of the deep embedding of model/GoLang.v. *)")
	o.add("From Coq Require Import List String ZArith.")
	o.add("From SP Require Import GoLang.")
	o.add("Import ListNotations.")
	o.add("Local Open Scope string_scope.")
	o.add("Local Open Scope Z_scope.")
	o.add("")
	want := map[string]bool{}
	for _, w := range astWhitelist {
		want[w] = true
	}
	found := map[string]bool{}
	for _, p := range pkgs {
		for _, f := range p.Syntax {
			if isTest(p.Fset, f) || strings.HasPrefix(baseName(p.Fset, f), "verif_") {
				continue
			}
			for _, d := range f.Decls {
				fd, ok := d.(*ast.FuncDecl)
				if !ok || fd.Body == nil {
					continue
				}
				name := p.Name + "." + funcName(fd)
				if !want[name] {
					continue
				}
				found[name] = true
				g := &astGen{info: p.TypesInfo, pkg: p.Types}
				if fd.Type.Results != nil {
					for _, fl := range fd.Type.Results.List {
						for _, n := range fl.Names {
							g.results = append(g.results, n.Name)
						}
					}
				}
				var params, results []string
				if fd.Recv != nil {
					for _, fl := range fd.Recv.List {
						for _, n := range fl.Names {
							params = append(params, coqStr(n.Name))
						}
					}
				}
				for _, fl := range fd.Type.Params.List {
					for _, n := range fl.Names {
						params = append(params, coqStr(n.Name))
					}
				}
				if fd.Type.Results != nil {
					for _, fl := range fd.Type.Results.List {
						for _, n := range fl.Names {
							results = append(results, fmt.Sprintf("(%s, %s)", coqStr(n.Name), coqStr(g.typeName(g.info.TypeOf(fl.Type)))))
						}
					}
				}
				o.add("(* %s, %s *)", name, baseName(p.Fset, fd))
				o.add("Definition f_%s : gfunc := mkFunc %s [%s] [%s]", coqIdent(strings.ReplaceAll(name, ".", "_")), coqStr(name), strings.Join(params, "; "), strings.Join(results, "; "))
				o.add("     %s.", g.block(fd.Body))
				o.add("")
			}
		}
	}
	for _, w := range astWhitelist {
		if !found[w] {
			// a renamed or removed function breaks the equivalence theorem that names it
			o.add("(* NOT FOUND in /repo: %s *)", w)
		}
	}
	return strings.Join(o.lines, "\n") + "\n"
}
