// gen re-reads /repo (the current working tree) and regenerates the Coq files
// under coq/gen: Consts.v (named constants, per-function string literals,
// encoding and armor parameters) and Layout.v (wire field order of the
// toarray structs and of the hand-written CodecEncodeSelf methods).
// A file is rewritten only when its content changes, so `make` stays a no-op
// on an unchanged tree.
package main

import (
	"bytes"
	"fmt"
	"go/ast"
	"go/constant"
	"go/token"
	"go/types"
	"os"
	"path/filepath"
	"sort"
	"strconv"
	"strings"

	"golang.org/x/tools/go/packages"
)

func die(f string, a ...interface{}) {
	fmt.Fprintf(os.Stderr, "gen: "+f+"\n", a...)
	os.Exit(2)
}

func coqBytes(s string) string {
	var b strings.Builder
	b.WriteString("[")
	for i := 0; i < len(s); i++ {
		if i > 0 {
			b.WriteString("; ")
		}
		fmt.Fprintf(&b, "x%02x", s[i])
	}
	b.WriteString("]")
	return b.String()
}

func safeComment(s string) string {
	var b strings.Builder
	for i := 0; i < len(s); i++ {
		c := s[i]
		if c == ' ' || c == '_' || c == '-' || (c >= '0' && c <= '9') || (c >= 'a' && c <= 'z') || (c >= 'A' && c <= 'Z') {
			b.WriteByte(c)
		} else {
			b.WriteByte('?')
		}
	}
	return b.String()
}

func coqIdent(s string) string {
	var b strings.Builder
	for _, r := range s {
		if r == '_' || (r >= '0' && r <= '9') || (r >= 'a' && r <= 'z') || (r >= 'A' && r <= 'Z') {
			b.WriteRune(r)
		} else {
			b.WriteRune('_')
		}
	}
	return b.String()
}

func isTest(fset *token.FileSet, f *ast.File) bool {
	return strings.HasSuffix(fset.Position(f.Pos()).Filename, "_test.go")
}

func baseName(fset *token.FileSet, n ast.Node) string {
	return filepath.Base(fset.Position(n.Pos()).Filename)
}

type out struct {
	lines []string
}

func (o *out) add(f string, a ...interface{}) { o.lines = append(o.lines, fmt.Sprintf(f, a...)) }

func funcName(fd *ast.FuncDecl) string {
	name := fd.Name.Name
	if fd.Recv != nil && len(fd.Recv.List) > 0 {
		t := fd.Recv.List[0].Type
		if s, ok := t.(*ast.StarExpr); ok {
			t = s.X
		}
		if id, ok := t.(*ast.Ident); ok {
			name = id.Name + "_" + name
		}
	}
	return name
}

func genConsts(pkgs []*packages.Package) string {
	o := &out{}
	o.add("(* GENERATED from /repo by harness/cmd/gen — do not edit. *)")
	o.add("From Coq Require Import List NArith ZArith.")
	o.add("From Coq.Strings Require Import Byte.")
	o.add("Import ListNotations.")
	o.add("")
	for _, p := range pkgs {
		short := p.Name
		o.add("(* ---- package %s ---- *)", p.PkgPath)
		// named constants
		var names []string
		scope := p.Types.Scope()
		for _, n := range scope.Names() {
			if c, ok := scope.Lookup(n).(*types.Const); ok {
				pos := p.Fset.Position(c.Pos())
				if strings.HasSuffix(pos.Filename, "_test.go") {
					continue
				}
				names = append(names, n)
			}
		}
		sort.Strings(names)
		for _, n := range names {
			c := scope.Lookup(n).(*types.Const)
			v := c.Val()
			id := "c_" + short + "_" + coqIdent(n)
			switch v.Kind() {
			case constant.String:
				s := constant.StringVal(v)
				o.add("Definition %s : list byte := %s. (* %s *)", id, coqBytes(s), safeComment(s))
			case constant.Int:
				o.add("Definition %s : Z := (%s)%%Z.", id, v.ExactString())
			}
		}
		// per-function string and char literals, selected files
		want := map[string]bool{"nonce.go": true}
		type fl struct {
			name string
			lits []string
		}
		var fls []fl
		for _, f := range p.Syntax {
			if isTest(p.Fset, f) || !want[baseName(p.Fset, f)] {
				continue
			}
			for _, d := range f.Decls {
				fd, ok := d.(*ast.FuncDecl)
				if !ok || fd.Body == nil {
					continue
				}
				var lits []string
				ast.Inspect(fd.Body, func(n ast.Node) bool {
					if bl, ok := n.(*ast.BasicLit); ok && bl.Kind == token.STRING {
						s, err := strconv.Unquote(bl.Value)
						if err == nil {
							lits = append(lits, s)
						}
					}
					return true
				})
				if len(lits) > 0 {
					fls = append(fls, fl{funcName(fd), lits})
				}
			}
		}
		sort.Slice(fls, func(i, j int) bool { return fls[i].name < fls[j].name })
		for _, f := range fls {
			for i, s := range f.lits {
				o.add("Definition s_%s_%s_%d : list byte := %s. (* %s *)", short, coqIdent(f.name), i, coqBytes(s), safeComment(s))
			}
		}
		// package-level vars initialised by NewEncoding(...) or armorParams{...}
		for _, f := range p.Syntax {
			if isTest(p.Fset, f) {
				continue
			}
			for _, d := range f.Decls {
				gd, ok := d.(*ast.GenDecl)
				if !ok || gd.Tok != token.VAR {
					continue
				}
				for _, sp := range gd.Specs {
					vs := sp.(*ast.ValueSpec)
					for i, nm := range vs.Names {
						if i >= len(vs.Values) {
							continue
						}
						switch e := vs.Values[i].(type) {
						case *ast.CallExpr:
							if id, ok := e.Fun.(*ast.Ident); ok && id.Name == "NewEncoding" && len(e.Args) == 3 {
								vals := make([]constant.Value, 3)
								okAll := true
								for k, a := range e.Args {
									tv, ok := p.TypesInfo.Types[a]
									if !ok || tv.Value == nil {
										okAll = false
										break
									}
									vals[k] = tv.Value
								}
								if !okAll {
									die("NewEncoding args of %s are not constant", nm.Name)
								}
								o.add("Definition enc_%s_alphabet : list byte := %s.", nm.Name, coqBytes(constant.StringVal(vals[0])))
								o.add("Definition enc_%s_ibl : N := (%s)%%N.", nm.Name, vals[1].ExactString())
								o.add("Definition enc_%s_skip : list byte := %s. (* %s *)", nm.Name, coqBytes(constant.StringVal(vals[2])), safeComment(constant.StringVal(vals[2])))
							}
						case *ast.CompositeLit:
							if id, ok := e.Type.(*ast.Ident); ok && id.Name == "armorParams" {
								for _, el := range e.Elts {
									kv, ok := el.(*ast.KeyValueExpr)
									if !ok {
										continue
									}
									k := kv.Key.(*ast.Ident).Name
									if tv, ok := p.TypesInfo.Types[kv.Value]; ok && tv.Value != nil && tv.Value.Kind() == constant.Int {
										o.add("Definition ap_%s_%s : N := (%s)%%N.", nm.Name, k, tv.Value.ExactString())
									} else if sel, ok := kv.Value.(*ast.SelectorExpr); ok {
										o.add("(* ap_%s_%s = %s.%s *)", nm.Name, k, sel.X.(*ast.Ident).Name, sel.Sel.Name)
										o.add("Definition ap_%s_%s_name : list byte := %s.", nm.Name, k, coqBytes(sel.Sel.Name))
									}
								}
							}
						}
					}
				}
			}
		}
		// selected integer literals: composite-literal field values and call arguments by function
		for _, f := range p.Syntax {
			if isTest(p.Fset, f) {
				continue
			}
			for _, d := range f.Decls {
				fd, ok := d.(*ast.FuncDecl)
				if !ok || fd.Body == nil {
					continue
				}
				fn := funcName(fd)
				if !(fn == "newArmorDecoderStream" || fn == "newDecoder" || fn == "NewEncoder" || fn == "KnownVersions" ||
					fn == "Version1" || fn == "Version2") {
					continue
				}
				k := 0
				ast.Inspect(fd.Body, func(n ast.Node) bool {
					if bl, ok := n.(*ast.BasicLit); ok && bl.Kind == token.INT {
						o.add("Definition i_%s_%s_%d : N := (%s)%%N.", short, coqIdent(fn), k, bl.Value)
						k++
					}
					return true
				})
			}
		}
		o.add("")
	}
	return strings.Join(o.lines, "\n") + "\n"
}

func structFields(st *ast.StructType) (toarray bool, fields []string) {
	for _, f := range st.Fields.List {
		if len(f.Names) == 0 {
			// embedded
			if id, ok := f.Type.(*ast.Ident); ok {
				fields = append(fields, "<"+id.Name+">")
			}
			continue
		}
		for _, n := range f.Names {
			if n.Name == "_struct" {
				if f.Tag != nil && strings.Contains(f.Tag.Value, "toarray") {
					toarray = true
				}
				continue
			}
			fields = append(fields, n.Name)
		}
	}
	return
}

func coqStrList(l []string) string {
	var q []string
	for _, s := range l {
		q = append(q, "\""+s+"\"")
	}
	return "[" + strings.Join(q, "; ") + "]"
}

func genLayout(pkgs []*packages.Package) string {
	o := &out{}
	o.add("(* GENERATED from /repo by harness/cmd/gen — do not edit. *)")
	o.add("From Coq Require Import List String.")
	o.add("Import ListNotations.")
	o.add("Open Scope string_scope.")
	o.add("")
	for _, p := range pkgs {
		if p.Name != "saltpack" {
			continue
		}
		type ent struct{ name, body string }
		var ents []ent
		for _, f := range p.Syntax {
			if isTest(p.Fset, f) {
				continue
			}
			for _, d := range f.Decls {
				switch d := d.(type) {
				case *ast.GenDecl:
					if d.Tok != token.TYPE {
						continue
					}
					for _, sp := range d.Specs {
						ts := sp.(*ast.TypeSpec)
						st, ok := ts.Type.(*ast.StructType)
						if !ok {
							continue
						}
						ta, fields := structFields(st)
						hasStructTag := false
						for _, fl := range st.Fields.List {
							for _, n := range fl.Names {
								if n.Name == "_struct" {
									hasStructTag = true
								}
							}
						}
						if !hasStructTag && !(strings.HasPrefix(ts.Name.Name, "encryptionBlock") || strings.HasPrefix(ts.Name.Name, "signatureBlock")) {
							continue
						}
						ents = append(ents, ent{"layout_" + ts.Name.Name, coqStrList(fields)})
						ents = append(ents, ent{"toarray_" + ts.Name.Name, map[bool]string{true: "true", false: "false"}[ta]})
					}
				case *ast.FuncDecl:
					if d.Body == nil || (d.Name.Name != "CodecEncodeSelf" && d.Name.Name != "CodecDecodeSelf") {
						continue
					}
					var sels []string
					ast.Inspect(d.Body, func(n ast.Node) bool {
						if cl, ok := n.(*ast.CompositeLit); ok {
							for _, el := range cl.Elts {
								e := el
								if u, ok := e.(*ast.UnaryExpr); ok {
									e = u.X
								}
								if s, ok := e.(*ast.SelectorExpr); ok {
									sels = append(sels, s.Sel.Name)
								}
							}
							return false
						}
						return true
					})
					ents = append(ents, ent{"selfer_" + coqIdent(funcName(d)), coqStrList(sels)})
				}
			}
		}
		sort.Slice(ents, func(i, j int) bool { return ents[i].name < ents[j].name })
		for _, e := range ents {
			if strings.HasPrefix(e.name, "toarray_") {
				o.add("Definition %s : bool := %s.", e.name, e.body)
			} else {
				o.add("Definition %s : list string := %s.", e.name, e.body)
			}
		}
	}
	return strings.Join(o.lines, "\n") + "\n"
}


// genPanicSites: inventory of panic-capable constructs in the functions of the
// receive / dearmor / classify paths: explicit panic calls, calls of the helpers
// that panic on a length mismatch, index and slice expressions, type assertions
// without comma-ok, by function.  A change of this inventory breaks the proof of
// C15_inventory_covered, which pins it to the list the model accounts for.
func genPanicSites(pkgs []*packages.Package) string {
	o := &out{}
	o.add("(* GENERATED from /repo by harness/cmd/gen — do not edit. *)")
	o.add("From Coq Require Import List String NArith.")
	o.add("Import ListNotations.")
	o.add("Open Scope string_scope.")
	o.add("")
	decodeFiles := map[string]bool{"decrypt.go": true, "signcrypt_open.go": true, "verify.go": true, "verify_stream.go": true,
		"packets.go": true, "msgpack.go": true, "chunk_reader.go": true, "common.go": true, "nonce.go": true, "key.go": true,
		"classify_and_decrypt.go": true, "armor.go": true, "frame.go": true, "punctuated_reader.go": true, "armor62.go": true,
		"armor62_decrypt.go": true, "armor62_verify.go": true, "armor62_signcrypt.go": true, "encoding.go": true, "stream.go": true}
	helpers := map[string]bool{"copyEqualSize": true, "copyEqualSizeStr": true, "sliceToByte24": true, "stringToByte24": true,
		"sliceToByte32": true, "sliceToByte64": true, "assertEncodedChunkState": true}
	type ent struct {
		name                                      string
		panics, helperCalls, idx, slc, assertions int
	}
	var ents []ent
	for _, p := range pkgs {
		if p.Name == "basic" {
			// the sample keyring is not a receive path: C15 quantifies over keyring behaviours instead
			continue
		}
		for _, f := range p.Syntax {
			if isTest(p.Fset, f) || !decodeFiles[baseName(p.Fset, f)] || strings.HasPrefix(baseName(p.Fset, f), "verif_") {
				continue
			}
			for _, d := range f.Decls {
				fd, ok := d.(*ast.FuncDecl)
				if !ok || fd.Body == nil {
					continue
				}
				e := ent{name: p.Name + "." + funcName(fd)}
				ast.Inspect(fd.Body, func(n ast.Node) bool {
					switch x := n.(type) {
					case *ast.CallExpr:
						if id, ok := x.Fun.(*ast.Ident); ok {
							if id.Name == "panic" {
								e.panics++
							} else if helpers[id.Name] {
								e.helperCalls++
							}
						}
					case *ast.IndexExpr:
						// map reads do not panic
						if tv, ok := p.TypesInfo.Types[x.X]; ok {
							if _, isMap := tv.Type.Underlying().(*types.Map); isMap {
								return true
							}
						}
						e.idx++
					case *ast.SliceExpr:
						e.slc++
					case *ast.TypeAssertExpr:
						if x.Type != nil {
							e.assertions++
						}
					}
					return true
				})
				if e.panics+e.helperCalls+e.idx+e.slc+e.assertions > 0 {
					ents = append(ents, e)
				}
			}
		}
	}
	sort.Slice(ents, func(i, j int) bool { return ents[i].name < ents[j].name })
	o.add("(* function, explicit panics, calls of length-checking helpers that panic, index expressions (non-map), slice expressions, unchecked type assertions *)")
	o.add("Definition panic_sites : list (string * (N * N * N * N * N)) := [")
	for i, e := range ents {
		sep := ";"
		if i == len(ents)-1 {
			sep = ""
		}
		o.add("  (\"%s\", (%d, %d, %d, %d, %d)%%N)%s", e.name, e.panics, e.helperCalls, e.idx, e.slc, e.assertions, sep)
	}
	o.add("].")
	return strings.Join(o.lines, "\n") + "\n"
}


// genSharedState: package-level variables of saltpack, basex and basic, and every
// construct that can write through them outside initialisation: assignments, ++/--,
// and method calls whose receiver expression is rooted at a package-level variable or
// at a value of one of the shared types (*basex.Encoding, armorParams).
func genSharedState(pkgs []*packages.Package) string {
	o := &out{}
	o.add("(* GENERATED from /repo by harness/cmd/gen — do not edit. *)")
	o.add("From Coq Require Import List String.")
	o.add("Import ListNotations.")
	o.add("Open Scope string_scope.")
	o.add("")
	var vars, writes, calls []string
	sharedType := func(t types.Type) bool {
		if t == nil {
			return false
		}
		s := t.String()
		return strings.HasSuffix(s, "basex.Encoding") || strings.HasSuffix(s, "saltpack.armorParams")
	}
	for _, p := range pkgs {
		scope := p.Types.Scope()
		for _, n := range scope.Names() {
			if v, ok := scope.Lookup(n).(*types.Var); ok {
				if strings.HasSuffix(p.Fset.Position(v.Pos()).Filename, "_test.go") || strings.HasPrefix(filepath.Base(p.Fset.Position(v.Pos()).Filename), "verif_") {
					continue
				}
				vars = append(vars, p.Name+"."+n+" : "+types.TypeString(v.Type(), func(q *types.Package) string { return q.Name() }))
			}
		}
		rootOf := func(e ast.Expr) (ast.Expr, *ast.Ident) {
			for {
				switch x := e.(type) {
				case *ast.SelectorExpr:
					e = x.X
				case *ast.IndexExpr:
					e = x.X
				case *ast.StarExpr:
					e = x.X
				case *ast.ParenExpr:
					e = x.X
				case *ast.SliceExpr:
					e = x.X
				case *ast.Ident:
					return e, x
				default:
					return e, nil
				}
			}
		}
		isShared := func(e ast.Expr) (bool, string) {
			_, id := rootOf(e)
			if id == nil {
				return false, ""
			}
			obj := p.TypesInfo.Uses[id]
			if obj == nil {
				obj = p.TypesInfo.Defs[id]
			}
			if v, ok := obj.(*types.Var); ok {
				if v.Parent() == p.Types.Scope() {
					return true, "package variable " + id.Name
				}
				t := v.Type()
				if pt, ok := t.(*types.Pointer); ok {
					t = pt.Elem()
				}
				if sharedType(t) && e != ast.Expr(id) {
					return true, "field of shared " + types.TypeString(t, func(q *types.Package) string { return q.Name() })
				}
			}
			return false, ""
		}
		for _, f := range p.Syntax {
			fname := baseName(p.Fset, f)
			if isTest(p.Fset, f) || strings.HasPrefix(fname, "verif_") {
				continue
			}
			for _, d := range f.Decls {
				fd, ok := d.(*ast.FuncDecl)
				if !ok || fd.Body == nil {
					continue
				}
				fn := p.Name + "." + funcName(fd)
				if fn == "basex.NewEncoding" {
					continue // construction, before the value is shared (listed by rule)
				}
				ast.Inspect(fd.Body, func(n ast.Node) bool {
					switch x := n.(type) {
					case *ast.AssignStmt:
						for _, l := range x.Lhs {
							if sh, why := isShared(l); sh {
								if _, isIdent := l.(*ast.Ident); isIdent && x.Tok == token.DEFINE {
									continue
								}
								writes = append(writes, fn+": assignment through "+why)
							}
						}
					case *ast.IncDecStmt:
						if sh, why := isShared(x.X); sh {
							writes = append(writes, fn+": ++/-- through "+why)
						}
					case *ast.CallExpr:
						if sel, ok := x.Fun.(*ast.SelectorExpr); ok {
							// method call whose receiver is reached through shared state
							if selInfo, ok := p.TypesInfo.Selections[sel]; ok && selInfo.Kind() == types.MethodVal {
								if sh, why := isShared(sel.X); sh {
									recv := selInfo.Obj().(*types.Func).Type().(*types.Signature).Recv()
									ptr := false
									if recv != nil {
										_, ptr = recv.Type().(*types.Pointer)
									}
									if ptr {
										calls = append(calls, fn+": "+types.ExprString(sel.X)+"."+sel.Sel.Name+" (pointer-receiver method through "+why+")")
									}
								}
							}
						}
					}
					return true
				})
			}
		}
	}
	sort.Strings(vars)
	sort.Strings(writes)
	sort.Strings(calls)
	emit := func(name string, l []string) {
		o.add("Definition %s : list string := [", name)
		for i, s := range l {
			sep := ";"
			if i == len(l)-1 {
				sep = ""
			}
			o.add("  \"%s\"%s", strings.ReplaceAll(s, "\"", "'"), sep)
		}
		o.add("].")
	}
	emit("package_vars", vars)
	emit("shared_writes", writes)
	emit("shared_pointer_method_calls", calls)
	return strings.Join(o.lines, "\n") + "\n"
}

func writeIfChanged(path, content string) {
	old, err := os.ReadFile(path)
	if err == nil && bytes.Equal(old, []byte(content)) {
		return
	}
	if err := os.WriteFile(path, []byte(content), 0o644); err != nil {
		die("%v", err)
	}
	fmt.Println("gen: wrote", path)
}

func main() {
	if len(os.Args) < 3 {
		die("usage: gen <repo> <outdir>")
	}
	repo, outdir := os.Args[1], os.Args[2]
	cfg := &packages.Config{Mode: packages.NeedName | packages.NeedFiles | packages.NeedSyntax | packages.NeedTypes | packages.NeedTypesInfo | packages.NeedImports | packages.NeedDeps,
		Dir: repo, Tests: false}
	pkgs, err := packages.Load(cfg, "github.com/keybase/saltpack", "github.com/keybase/saltpack/encoding/basex", "github.com/keybase/saltpack/basic")
	if err != nil {
		die("load: %v", err)
	}
	for _, p := range pkgs {
		if len(p.Errors) > 0 {
			die("package %s: %v", p.PkgPath, p.Errors)
		}
	}
	sort.Slice(pkgs, func(i, j int) bool { return pkgs[i].PkgPath < pkgs[j].PkgPath })
	writeIfChanged(filepath.Join(outdir, "Consts.v"), genConsts(pkgs))
	writeIfChanged(filepath.Join(outdir, "Layout.v"), genLayout(pkgs))
	writeIfChanged(filepath.Join(outdir, "PanicSites.v"), genPanicSites(pkgs))
	writeIfChanged(filepath.Join(outdir, "SharedState.v"), genSharedState(pkgs))
	writeIfChanged(filepath.Join(outdir, "GoAst.v"), genGoAst(pkgs, astWhitelist))
	writeIfChanged(filepath.Join(outdir, "GoAstRecv.v"), genGoAst(pkgs, astRecv))
	writeIfChanged(filepath.Join(outdir, "GoAstStreams.v"), genGoAst(pkgs, astStreams))
	writeIfChanged(filepath.Join(outdir, "GoAstEnc.v"), genGoAst(pkgs, astEnc))
	writeIfChanged(filepath.Join(outdir, "GoAstSend.v"), genGoAst(pkgs, astSend))
	writeIfChanged(filepath.Join(outdir, "GoAstSign.v"), genGoAst(pkgs, astSign))
	writeIfChanged(filepath.Join(outdir, "GoAstDearmor.v"), genGoAst(pkgs, astDearmor))
	writeIfChanged(filepath.Join(outdir, "GoAstFrame.v"), genGoAst(pkgs, astFrame))
	writeIfChanged(filepath.Join(outdir, "GoAstOpen.v"), genGoAst(pkgs, astOpen))
	writeIfChanged(filepath.Join(outdir, "GoAstEntry.v"), genGoAst(pkgs, astEntry))
}
