package main

import (
	"strconv"
)

func (h *H) randBoxSk() []byte { return h.rng.Bytes(32) }

func boxPk(sk []byte) []byte { return boxSecretFromBytes(sk).GetPublicKey().ToKID() }

// enough randomness for a seal: shuffle draws (with slack for rejections), ephemeral key, payload key
func sealRng(r *SplitMix, n int) []byte { return r.Bytes(4*n + 64 + 16) }

type sealSpec struct {
	v      string
	sender []byte // nil = anonymous
	rsk    [][]byte
	hide   []bool
}

func (s sealSpec) rcpts() string {
	var pks [][]byte
	for _, k := range s.rsk {
		pks = append(pks, boxPk(k))
	}
	return rcptsStr(pks, s.hide)
}

func (s sealSpec) senderStr() string {
	if s.sender == nil {
		return "anon"
	}
	return hx(s.sender)
}

func sealCase(s sealSpec, pieces [][]byte, rng []byte, oneshot bool) Case {
	return Case{Op: "seal", A: map[string]string{"v": s.v, "sender": s.senderStr(), "rcpts": s.rcpts(), "rsk": blist(s.rsk),
		"pieces": blist(pieces), "rng": hx(rng), "oneshot": b01(oneshot)}}
}

func (h *H) randSealSpec(nr int, pattern int) sealSpec {
	s := sealSpec{v: []string{"1.0", "2.0"}[h.rng.Intn(2)]}
	if h.rng.Intn(3) != 0 {
		s.sender = h.randBoxSk()
	}
	for i := 0; i < nr; i++ {
		s.rsk = append(s.rsk, h.randBoxSk())
		s.hide = append(s.hide, pattern>>uint(i)&1 == 1)
	}
	return s
}

func genSealRoundtrip(h *H) {
	thorough := h.tier == "thorough"
	// all hide patterns for n <= 3, both versions, named and anonymous
	cnt := 0
	for nr := 1; nr <= 3; nr++ {
		for pat := 0; pat < 1<<uint(nr); pat++ {
			for _, v := range []string{"1.0", "2.0"} {
				for _, anon := range []bool{false, true} {
					s := h.randSealSpec(nr, pat)
					s.v = v
					if anon {
						s.sender = nil
					} else if s.sender == nil {
						s.sender = h.randBoxSk()
					}
					msg := h.content(h.pickLen(cnt % 14))
					cnt++
					h.tag("rcpts:" + strconv.Itoa(nr))
					h.Run(sealCase(s, [][]byte{msg}, sealRng(h.rng, nr), true))
					h.Run(sealCase(s, splitPieces(h.rng, msg), sealRng(h.rng, nr), false))
				}
			}
		}
	}
	n := 30
	if thorough {
		n = 600
	}
	for i := 0; i < n; i++ {
		nr := 1 + h.rng.Intn(6)
		if thorough && i%20 == 0 {
			nr = 10 + h.rng.Intn(30)
		}
		s := h.randSealSpec(nr, int(h.rng.Next()))
		msg := h.content(h.pickLen(i % 20))
		h.tag("rcpts:" + strconv.Itoa(nr))
		h.Run(sealCase(s, [][]byte{msg}, sealRng(h.rng, nr), i%2 == 0))
	}
	// the sender also listed as a visible recipient
	{
		s := h.randSealSpec(2, 0)
		s.sender = s.rsk[1]
		h.Run(sealCase(s, [][]byte{h.rng.Bytes(10)}, sealRng(h.rng, 2), true))
	}
	ks := []int{1}
	if thorough {
		ks = []int{1, 2, 3}
	}
	for _, v := range []string{"1.0", "2.0"} {
		if !thorough && !h.specOracles {
			s := h.randSealSpec(1, 0)
			s.v = v
			h.tag("len:two-blocks-plus-one")
			h.Run(sealCase(s, [][]byte{h.rng.Bytes(2*mib + 1)}, sealRng(h.rng, 1), true))
		}
		for _, k := range ks {
			for _, d := range []int{-1, 0, 1} {
				s := h.randSealSpec(2, 1)
				s.v = v
				h.tag("len:chunk-boundary")
				msg := h.rng.Bytes(k*mib + d)
				h.Run(sealCase(s, [][]byte{msg}, sealRng(h.rng, 2), true))
				pats := []int{k + d + 1 + 2*int(v[0]-'1')}
				if thorough {
					pats = []int{0, 1, 2, 3, 4}
				}
				if h.specOracles && !thorough {
					pats = pats[:0]
				}
				for _, pt := range pats {
					h.tag("len:chunk-boundary-streamed")
					h.Run(sealCase(s, bigPieces(pt, msg), sealRng(h.rng, 2), false))
				}
			}
		}
	}
}

func init() {
	campaigns["C01"] = campaign{
		rule: "cases: (version, named/anonymous sender, 1..6 recipients (up to 40 in thorough) with every visible/hidden pattern for n<=3, plaintext split into Write pieces or one-shot, pinned randomness); lengths 0,1,2,31..33,255..257,1000, random, and k MiB-1/k MiB/k MiB+1; each case compares the emitted bytes and the randomness consumed with the extracted model, then opens the message as every recipient (Open and the streaming form with a random buffer size) checking plaintext, sender, receiver key and hidden flag, and as a stranger (no-decryption-key, no plaintext). plus Seal to 300 (thorough: also 65535, 65536, 65537) distinct recipients opened by the middle one. Distinct by (op,args) hash.",
		gen: func(h *H) {
			genSealRoundtrip(h)
			// the recipient-list size classes of MessagePack (array16 up to 65535 entries, array32 beyond):
			// 300 recipients always; both sides of the boundary in the thorough tier only (one Diffie-Hellman per
			// recipient: minutes on a loaded machine)
			ns := []int{300}
			if h.tier == "thorough" {
				ns = []int{300, 65535, 65536, 65537}
			}
			for i, n := range ns {
				h.tag("rcpts:many")
				h.Run(Case{Op: "seal_many", A: map[string]string{"n": strconv.Itoa(n), "v": []string{"2.0", "1.0"}[i%2], "rsk": hx(h.randBoxSk()),
					"sender": hx(h.randBoxSk()), "seed": hx(h.rng.Bytes(28))}})
			}
		},
	}
}
