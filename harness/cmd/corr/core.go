// corr is the correspondence harness: it runs the implementation in /repo
// (built from the current working tree with -tags verif) and the extracted Coq
// model (the OCaml runner) on the same cases, compares the projected
// observables, and evaluates direct property oracles on the implementation.
package main

import (
	"bufio"
	"bytes"
	"crypto/sha256"
	"encoding/hex"
	"encoding/json"
	"fmt"
	"io"
	"os"
	"os/exec"
	"path/filepath"
	"sort"
	"strings"
	"time"
)

// Case is one replayable unit of work: an operation name and string arguments.
type Case struct {
	Op string            `json:"op"`
	A  map[string]string `json:"a"`
}

func (c Case) key() string {
	b, _ := json.Marshal(c)
	h := sha256.Sum256(b)
	return hex.EncodeToString(h[:8])
}

// Failure is a disagreement (kind "correspondence": model vs implementation)
// or a direct violation of the property on the implementation (kind "oracle").
type Failure struct {
	Kind string `json:"kind"`
	Key  string `json:"key"`  // stable classification, matched against known_findings.txt
	Desc string `json:"desc"` // human-readable
	Case Case   `json:"case"`
}

type Result struct {
	Property      string         `json:"property"`
	Tier          string         `json:"tier"`
	Seed          uint64         `json:"seed"`
	Evaluations   int            `json:"evaluations"`
	Distinct      int            `json:"distinct_nontrivial"`
	Rule          string         `json:"rule"`
	Samples       []Case         `json:"samples"`
	Distribution  map[string]int `json:"distribution"`
	Exhaustive    bool           `json:"exhaustive"`
	ExhNote       string         `json:"exhaustive_note,omitempty"`
	Unmodelled    int            `json:"unmodelled"`
	Failures      []Failure      `json:"failures"`
	FailureCounts map[string]int `json:"failure_counts"`
	WallS         float64        `json:"wall_s"`
}

type evaluator struct {
	// run evaluates one case on model and implementation.
	run func(h *H, c Case) []Failure
	// trivial reports whether a case is trivial for the distinct_nontrivial count.
	trivial func(c Case) bool
}

var evaluators = map[string]evaluator{}

// H is the harness state of one campaign.
type H struct {
	res         Result
	rn          *Runner
	rng         *SplitMix
	seen        map[string]bool
	tier        string
	maxFail     int
	sampleEv    int
	specOracles bool
	perKey      map[string]int
}

func (h *H) tag(t string) { h.res.Distribution[t]++ }

// Run evaluates one case and records it.
func (h *H) Run(c Case) {
	if h.specOracles && (c.Op == "sign" || c.Op == "seal" || c.Op == "sc_seal") {
		c.A["spec"] = "1"
	}
	ev, ok := evaluators[c.Op]
	if !ok {
		panic("no evaluator for op " + c.Op)
	}
	h.res.Evaluations++
	h.tag("op:" + c.Op)
	k := c.key()
	if !h.seen[k] {
		h.seen[k] = true
		if ev.trivial == nil || !ev.trivial(c) {
			h.res.Distinct++
		}
	}
	if len(h.res.Samples) < 8 && h.res.Evaluations%h.sampleEv == 1 {
		h.res.Samples = append(h.res.Samples, truncCase(c))
	}
	t0 := time.Now()
	if os.Getenv("VERIF_TRACE") != "" {
		fmt.Fprintf(os.Stderr, "case %d: op %s k=%s whole=%s\n", h.res.Evaluations, c.Op, c.A["k"], c.A["whole"])
	}
	fs := ev.run(h, c)
	if d := time.Since(t0); d > 5*time.Second && os.Getenv("VERIF_SLOW") != "" {
		fmt.Fprintf(os.Stderr, "slow case (%.1fs): op %s %v\n", d.Seconds(), c.Op, truncCase(c))
	}
	for _, f := range fs {
		// at most 3 recorded cases per failure key, so that one frequent failure cannot crowd out another
		if h.perKey[f.Key] < 3 && len(h.res.Failures) < h.maxFail {
			h.perKey[f.Key]++
			f.Case = c
			h.res.Failures = append(h.res.Failures, f)
		}
		h.res.FailureCounts[f.Kind+":"+f.Key]++
	}
}

func truncCase(c Case) Case {
	o := Case{Op: c.Op, A: map[string]string{}}
	for k, v := range c.A {
		if len(v) > 96 {
			v = v[:96] + fmt.Sprintf("...(%d chars)", len(v))
		}
		o.A[k] = v
	}
	return o
}

// ---------- runner process ----------

type Runner struct {
	cmd *exec.Cmd
	in  io.WriteCloser
	out *bufio.Reader
}

func startRunner(path string) *Runner {
	cmd := exec.Command("/bin/sh", "-c", "ulimit -s unlimited 2>/dev/null; exec "+path)
	in, _ := cmd.StdinPipe()
	out, _ := cmd.StdoutPipe()
	cmd.Stderr = os.Stderr
	if err := cmd.Start(); err != nil {
		fatal("cannot start runner: %v", err)
	}
	r := &Runner{cmd: cmd, in: in, out: bufio.NewReaderSize(out, 1<<20)}
	if got := r.Call("ping"); len(got) != 1 || got[0] != "pong" {
		fatal("runner ping failed: %v", got)
	}
	return r
}

// Call sends one request and returns the reply tokens, servicing oracle
// callbacks ("? prim args") on the way.
func (r *Runner) Call(op string, args ...string) []string {
	line := op
	if len(args) > 0 {
		line += " " + strings.Join(args, " ")
	}
	if _, err := io.WriteString(r.in, line+"\n"); err != nil {
		fatal("runner write: %v", err)
	}
	for {
		resp, err := r.out.ReadString('\n')
		if err != nil {
			fatal("runner read (op %s): %v", op, err)
		}
		resp = strings.TrimRight(resp, "\n")
		switch {
		case strings.HasPrefix(resp, "= "):
			return strings.Fields(resp[2:])
		case resp == "=":
			return nil
		case strings.HasPrefix(resp, "? "):
			f := strings.Fields(resp[2:])
			ans := cryptoOracle(f[0], f[1:])
			io.WriteString(r.in, ans+"\n")
		case strings.HasPrefix(resp, "! "):
			return []string{"!driver-error", resp[2:]}
		default:
			fatal("runner protocol error: %q", resp)
		}
	}
}

func (r *Runner) Close() { r.in.Close(); r.cmd.Wait() }

// ---------- helpers ----------

// the running campaign, so that a generator that cannot build its genuine inputs (the
// library's own output is not accepted by the reference implementation, a sender fails)
// still leaves a result file naming what broke instead of just dying
var runningH *H
var runningOut string
var runningT0 time.Time

// precondition records (once per message) that the generator could not build one of its genuine
// inputs — the reference implementation and the library disagree about a genuine message — and lets the
// campaign go on, so that its oracles can still find a concrete failing input.
var preconditionSeen = map[string]bool{}

func precondition(f string, a ...interface{}) {
	msg := fmt.Sprintf(f, a...)
	if runningH == nil || preconditionSeen[msg] {
		return
	}
	preconditionSeen[msg] = true
	h := runningH
	h.res.Failures = append(h.res.Failures, Failure{Kind: "correspondence", Key: "generator-precondition",
		Desc: "the campaign could not build one of its inputs: " + msg, Case: Case{Op: "generator", A: map[string]string{"what": msg}}})
	h.res.FailureCounts["correspondence:generator-precondition"]++
}

func fatal(f string, a ...interface{}) {
	msg := fmt.Sprintf(f, a...)
	fmt.Fprintf(os.Stderr, "corr: %s\n", msg)
	if runningH != nil && runningOut != "" {
		h := runningH
		h.res.Failures = append(h.res.Failures, Failure{Kind: "correspondence", Key: "generator-precondition",
			Desc: "the campaign could not build its genuine inputs: " + msg, Case: Case{Op: "generator", A: map[string]string{"what": msg}}})
		h.res.FailureCounts["correspondence:generator-precondition"]++
		h.res.WallS = time.Since(runningT0).Seconds()
		b, _ := json.MarshalIndent(h.res, "", " ")
		if os.WriteFile(runningOut, b, 0o644) == nil {
			fmt.Printf("corr: %s %s: stopped after %d evaluations: %s\n", h.res.Property, h.res.Tier, h.res.Evaluations, msg)
			os.Exit(0)
		}
	}
	os.Exit(3)
}

func hx(b []byte) string {
	if len(b) == 0 {
		return "-"
	}
	return hex.EncodeToString(b)
}

func unhx(s string) []byte {
	if s == "-" || s == "" {
		return nil
	}
	b, err := hex.DecodeString(s)
	if err != nil {
		panic("bad hex " + s)
	}
	return b
}

// SplitMix64: the only source of randomness of a campaign.
type SplitMix struct{ s uint64 }

func (r *SplitMix) Next() uint64 {
	r.s += 0x9e3779b97f4a7c15
	z := r.s
	z = (z ^ (z >> 30)) * 0xbf58476d1ce4e5b9
	z = (z ^ (z >> 27)) * 0x94d049bb133111eb
	return z ^ (z >> 31)
}
func (r *SplitMix) Intn(n int) int { return int(r.Next() % uint64(n)) }
func (r *SplitMix) Bytes(n int) []byte {
	b := make([]byte, n)
	for i := range b {
		if i%8 == 0 {
			v := r.Next()
			for j := 0; j < 8 && i+j < n; j++ {
				b[i+j] = byte(v >> (8 * j))
			}
		}
	}
	return b
}

func sortedKeys(m map[string]int) []string {
	var ks []string
	for k := range m {
		ks = append(ks, k)
	}
	sort.Strings(ks)
	return ks
}

type campaign struct {
	rule string
	gen  func(h *H)
}

var campaigns = map[string]campaign{}

func main() {
	if len(os.Args) < 2 {
		fatal("usage: corr run <prop> <tier> <seed> <runner> <out.json> | corr replay <runner> <replay.json>")
	}
	switch os.Args[1] {
	case "run":
		prop, tier := os.Args[2], os.Args[3]
		var seed uint64
		fmt.Sscan(os.Args[4], &seed)
		runnerPath, out := os.Args[5], os.Args[6]
		setGoRunnerPath(runnerPath)
		wireGoEval()
		c, ok := campaigns[prop]
		if !ok {
			fatal("no campaign for %s", prop)
		}
		h := &H{rn: startRunner(runnerPath), rng: &SplitMix{s: seed*0x9e3779b97f4a7c15 + 0x1234567}, seen: map[string]bool{}, tier: tier, maxFail: 60, sampleEv: 37, perKey: map[string]int{}}
		h.res = Result{Property: prop, Tier: tier, Seed: seed, Rule: c.rule, Distribution: map[string]int{}, FailureCounts: map[string]int{}}
		t0 := time.Now()
		runningH, runningOut, runningT0 = h, out, t0
		// minimized failing cases of earlier runs are replayed first
		if files, _ := filepath.Glob(filepath.Join("..", "corpus", prop, "*.json")); len(files) > 0 {
			sort.Strings(files)
			for _, f := range files {
				b, err := os.ReadFile(f)
				if err != nil {
					continue
				}
				var rp struct {
					Case Case `json:"case"`
				}
				if json.Unmarshal(b, &rp) == nil && rp.Case.Op != "" {
					h.tag("corpus")
					h.Run(rp.Case)
				}
			}
		}
		c.gen(h)
		h.res.WallS = time.Since(t0).Seconds()
		h.rn.Close()
		b, _ := json.MarshalIndent(h.res, "", " ")
		if err := os.WriteFile(out, b, 0o644); err != nil {
			fatal("%v", err)
		}
		fmt.Printf("corr: %s %s: %d evaluations, %d distinct non-trivial, %d failures, %.1fs\n", prop, tier, h.res.Evaluations, h.res.Distinct, len(h.res.Failures), h.res.WallS)
	case "raceworker":
		var seed uint64
		var iters, gor int
		fmt.Sscan(os.Args[2], &seed)
		fmt.Sscan(os.Args[3], &iters)
		fmt.Sscan(os.Args[4], &gor)
		os.Exit(raceWorker(seed, iters, gor))
	case "replay":
		runnerPath, path := os.Args[2], os.Args[3]
		setGoRunnerPath(runnerPath)
		b, err := os.ReadFile(path)
		if err != nil {
			fatal("%v", err)
		}
		var rp struct {
			Case Case `json:"case"`
		}
		if err := json.Unmarshal(b, &rp); err != nil || rp.Case.Op == "" {
			fatal("replay file has no case: %v", err)
		}
		h := &H{rn: startRunner(runnerPath), rng: &SplitMix{s: 1}, seen: map[string]bool{}, maxFail: 100, sampleEv: 1, perKey: map[string]int{}}
		h.res = Result{Distribution: map[string]int{}, FailureCounts: map[string]int{}}
		h.Run(rp.Case)
		h.rn.Close()
		out, _ := json.MarshalIndent(h.res.Failures, "", " ")
		fmt.Println(string(out))
		if len(h.res.Failures) > 0 {
			os.Exit(1)
		}
	default:
		fatal("unknown command")
	}
}

// content: n bytes of message content — uniformly random two times out of three, otherwise runs of
// 0x00, 0xff and one repeated byte of random lengths between short random stretches (real payloads have
// zero padding, sparse files, repeated records; all-random content never exercises leading-zero blocks of
// the base-62 codec or equal chunks)
func (h *H) content(n int) []byte {
	if n == 0 || h.rng.Intn(3) != 0 {
		return h.rng.Bytes(n)
	}
	out := make([]byte, 0, n)
	for len(out) < n {
		l := 1 + h.rng.Intn(80)
		if h.rng.Intn(8) == 0 {
			l = 1 + h.rng.Intn(3000)
		}
		if l > n-len(out) {
			l = n - len(out)
		}
		switch h.rng.Intn(4) {
		case 0:
			out = append(out, h.rng.Bytes(l)...)
		case 1:
			out = append(out, bytes.Repeat([]byte{0xff}, l)...)
		case 2:
			out = append(out, bytes.Repeat([]byte{byte(h.rng.Intn(256))}, l)...)
		default:
			out = append(out, make([]byte, l)...)
		}
	}
	return out
}

// writePieces hands the pieces to w the way io.Copy does: through ONE scratch buffer that is overwritten
// after every Write (an io.Writer must not retain p or modify it)
func writePieces(w io.Writer, pieces [][]byte) error {
	max := 0
	for _, p := range pieces {
		if len(p) > max {
			max = len(p)
		}
	}
	scratch := make([]byte, max)
	for _, p := range pieces {
		copy(scratch, p)
		n, e := w.Write(scratch[:len(p)])
		if e != nil {
			return e
		}
		if n != len(p) {
			return fmt.Errorf("short write: %d of %d", n, len(p))
		}
		if !bytes.Equal(scratch[:len(p)], p) {
			return fmt.Errorf("Write modified the caller's slice")
		}
		for i := range scratch {
			scratch[i] = 0xee
		}
	}
	return nil
}

// ---- results handed to the caller stay the caller's ----
// retained: the byte slices an entry point returned in earlier evaluations of this process, with a private copy taken
// at the time. A later call of the library must not change them (a result aliasing a recycled or shared buffer does).
type retainedResult struct {
	what string
	live []byte
	copy []byte
}

var retained []retainedResult

func retain(what string, b []byte) {
	if len(b) == 0 {
		return
	}
	if len(retained) >= 4 {
		retained = retained[1:]
	}
	retained = append(retained, retainedResult{what, b, append([]byte{}, b...)})
}

// retainedChanged reports (once) an earlier result whose bytes have changed since it was returned
func retainedChanged() *Failure {
	for i, r := range retained {
		if !bytes.Equal(r.live, r.copy) {
			retained = append(retained[:i:i], retained[i+1:]...)
			return &Failure{Kind: "oracle", Key: "earlier-result-overwritten", Desc: fmt.Sprintf("the %d bytes returned earlier by %s were changed in place by a later call of the library", len(r.copy), r.what)}
		}
	}
	return nil
}
