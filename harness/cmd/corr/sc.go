package main

import (
	"bytes"
	"fmt"
	"io"
	"strconv"
	"strings"

	"github.com/keybase/saltpack"
)

func parseSyms(s string) (out []saltpack.ReceiverSymmetricKey, keys, ids [][]byte) {
	keys, ids = parsePairs(s)
	for i := range keys {
		var k saltpack.SymmetricKey
		copy(k[:], keys[i])
		out = append(out, saltpack.ReceiverSymmetricKey{Key: k, Identifier: ids[i]})
	}
	return
}

func implScSeal(signer string, boxes string, syms string, pieces [][]byte, rng []byte, oneshot bool) (out []byte, left int, err error) {
	var sk saltpack.SigningSecretKey
	if signer != "anon" {
		sk = sigSecretFromBytes(unhx(signer))
	}
	var bks []saltpack.BoxPublicKey
	for _, pk := range unblist(boxes) {
		bks = append(bks, boxPubFromBytes(pk, false))
	}
	sks, _, _ := parseSyms(syms)
	ring := &hRing{}
	left = withRand(rng, func() {
		err = guard(func() error {
			if oneshot {
				var e error
				out, e = saltpack.SigncryptSeal(bytes.Join(pieces, nil), ring, sk, bks, sks)
				return e
			}
			var buf bytes.Buffer
			w, e := saltpack.NewSigncryptSealStream(&buf, ring, sk, bks, sks)
			if e != nil {
				return e
			}
			if e := writePieces(w, pieces); e != nil {
				return e
			}
			if e := w.Close(); e != nil {
				return e
			}
			out = buf.Bytes()
			return nil
		})
	})
	return
}

type scOpenOut struct {
	hdrErr   error
	started  bool
	signer   saltpack.SigningPublicKey
	released []byte
	end      error
}

func implScOpen(ring *hRing, res saltpack.SymmetricKeyResolver, input []byte, bufsize int) (o scOpenOut) {
	e := guard(func() error {
		spk, st, err := saltpack.NewSigncryptOpenStream(bytes.NewReader(input), ring, res)
		if err != nil {
			o.hdrErr = err
			return nil
		}
		o.started = true
		o.signer = spk
		o.released, o.end = readAllChunked(st, bufsize)
		return nil
	})
	if e != nil {
		if !o.started {
			o.hdrErr = e
		} else {
			o.end = e
		}
	}
	return
}

func (o scOpenOut) String() string {
	if o.hdrErr != nil {
		return "err " + errClassHeader(o.hdrErr)
	}
	s := "anon"
	if o.signer != nil {
		s = hx(o.signer.ToKID())
	}
	return strings.Join([]string{"ok", s, hx(o.released), errClass(o.end)}, " ")
}

func makeResolver(s string) saltpack.SymmetricKeyResolver {
	if s == "none" {
		return nil
	}
	ids, keys := parsePairs(s)
	return hResolver{ids: ids, keys: keys}
}

func init() {
	evaluators["sc_seal"] = evaluator{run: func(h *H, c Case) (fs []Failure) {
		pieces := unblist(c.A["pieces"])
		rng := unhx(c.A["rng"])
		msg := bytes.Join(pieces, nil)
		out, left, err := implScSeal(c.A["signer"], c.A["boxes"], c.A["syms"], pieces, rng, c.A["oneshot"] == "1")
		if f := retainedChanged(); f != nil {
			fs = append(fs, *f)
		}
		if err == nil && c.A["oneshot"] == "1" {
			retain("SigncryptSeal", out)
		}
		got := "err " + errClass(err)
		if err == nil {
			got = fmt.Sprintf("ok %s %d", hx(out), left)
		}
		m := strings.Join(h.rn.Call("sc_seal", c.A["signer"], c.A["boxes"], c.A["syms"], c.A["pieces"], hx(rng)), " ")
		if m != got {
			fs = append(fs, Failure{Kind: "correspondence", Key: "sc-seal", Desc: fmt.Sprintf("model %.200s | impl %.200s", m, got)})
		}
		if err != nil && strings.HasPrefix(err.Error(), "PANIC") {
			fs = append(fs, Failure{Kind: "oracle", Key: "sc-seal-panic", Desc: clip(err.Error(), 200)})
			return
		}
		if c.A["expect"] == "any" {
			return
		}
		if c.A["expect"] == "fail" {
			if err == nil {
				fs = append(fs, Failure{Kind: "oracle", Key: "sc-seal-fail-open", Desc: "signcryption succeeded although " + c.A["why"]})
			}
			return
		}
		if c.A["expect"] == "refuse-or-hide" {
			// a recipient list the sender may refuse; if it does emit, box recipients must still not be named
			if err == nil {
				for i, pk := range unblist(c.A["boxes"]) {
					if bytes.Contains(out, pk) {
						fs = append(fs, Failure{Kind: "oracle", Key: "sc-wire-names-box-recipient", Desc: fmt.Sprintf("box recipient %d is named in the bytes (%s)", i, c.A["why"])})
					}
				}
			}
			return
		}
		if err != nil {
			fs = append(fs, Failure{Kind: "oracle", Key: "sc-seal-fails", Desc: "signcryption failed: " + errClass(err)})
			return
		}
		var signerPk []byte
		if c.A["signer"] != "anon" {
			signerPk = unhx(c.A["signer"])[32:]
		}
		armoredDone := false
		check := func(what string, ring *hRing, res saltpack.SymmetricKeyResolver) {
			ring.signers = [][]byte{signerPk}
			spk, pt, e := saltpack.SigncryptOpen(out, ring, res)
			bad := e != nil || !bytes.Equal(pt, msg)
			if !bad {
				if signerPk == nil {
					bad = spk != nil
				} else {
					bad = spk == nil || !bytes.Equal(spk.ToKID(), signerPk)
				}
			}
			if bad {
				fs = append(fs, Failure{Kind: "oracle", Key: "sc-roundtrip", Desc: fmt.Sprintf("%s: SigncryptOpen gives %d bytes, err %v", what, len(pt), e)})
				return
			}
			o := implScOpen(ring, res, out, 1+h.rng.Intn(100))
			if o.hdrErr != nil || o.end != io.EOF || !bytes.Equal(o.released, msg) {
				fs = append(fs, Failure{Kind: "oracle", Key: "sc-roundtrip-stream", Desc: what + ": streaming open of a genuine message: " + clip(o.String(), 200)})
			}
			if armoredDone {
				return
			}
			armoredDone = true
			if pe := guard(func() error {
				txt, e := saltpack.Armor62Seal(out, saltpack.MessageTypeEncryption, "")
				if e != nil {
					return e
				}
				_, pt2, _, e := saltpack.Dearmor62SigncryptOpen(txt, ring, res)
				if e != nil || !bytes.Equal(pt2, msg) {
					return fmt.Errorf("Dearmor62SigncryptOpen: %d bytes, err %v", len(pt2), e)
				}
				_, rd, _, e := saltpack.NewDearmor62SigncryptOpenStream(strings.NewReader(txt), ring, res)
				if e != nil {
					return e
				}
				pt3, e := io.ReadAll(rd)
				if e != nil || !bytes.Equal(pt3, msg) {
					return fmt.Errorf("NewDearmor62SigncryptOpenStream: %d bytes, err %v", len(pt3), e)
				}
				return nil
			}); pe != nil {
				fs = append(fs, Failure{Kind: "oracle", Key: "sc-roundtrip-armored", Desc: fmt.Sprintf("%s: armored form of a genuine %d-byte message does not open: %.200s", what, len(msg), pe.Error())})
			}
		}
		for i, sk := range unblist(c.A["bsk"]) {
			r := &hRing{}
			r.keys = append(r.keys, boxSecretFromBytes(sk))
			check(fmt.Sprintf("box recipient %d", i), r, nil)
			if len(fs) > 0 {
				break
			}
		}
		_, keys, ids := parseSyms(c.A["syms"])
		// a holder of a box secret key opens the message whatever its resolver says about the symmetric recipients:
		// a resolver that knows none of the identifiers (and says so with an error), one that answers with the wrong
		// number of keys, one that holds a DIFFERENT key for every symmetric identifier of this message
		if bsk := unblist(c.A["bsk"]); len(bsk) > 0 {
			r := &hRing{signers: [][]byte{signerPk}}
			r.keys = append(r.keys, boxSecretFromBytes(bsk[0]))
			wrong := make([][]byte, len(ids))
			for i := range ids {
				wrong[i] = bytes.Repeat([]byte{0x5a}, 32)
			}
			for _, rv := range []struct {
				what string
				res  saltpack.SymmetricKeyResolver
			}{{"a resolver returning an error", oddResolver{mode: 0}}, {"a resolver returning one key too many", oddResolver{mode: 1}},
				{"a resolver holding other keys for the symmetric identifiers", hResolver{ids: ids, keys: wrong}}} {
				_, pt, e := saltpack.SigncryptOpen(out, r, rv.res)
				if e != nil || !bytes.Equal(pt, msg) {
					fs = append(fs, Failure{Kind: "oracle", Key: "sc-box-holder-refused-because-of-resolver", Desc: fmt.Sprintf("holder of box recipient key 0 with %s: err %v, %d bytes (the same holder with no resolver opens the message)", rv.what, e, len(pt))})
					break
				}
			}
		}
		for i := range keys {
			// resolver that resolves only identifier i; and one that resolves a random subset containing i
			check(fmt.Sprintf("symmetric recipient %d (single)", i), &hRing{}, hResolver{ids: [][]byte{ids[i]}, keys: [][]byte{keys[i]}})
			var sids, skeys [][]byte
			for j := range keys {
				if j == i || h.rng.Intn(2) == 0 {
					sids, skeys = append(sids, ids[j]), append(skeys, keys[j])
				}
			}
			check(fmt.Sprintf("symmetric recipient %d (subset)", i), &hRing{}, hResolver{ids: sids, keys: skeys})
			if len(fs) > 0 {
				break
			}
		}
		stranger := &hRing{signers: [][]byte{signerPk}}
		stranger.keys = append(stranger.keys, boxSecretFromBytes(bytes.Repeat([]byte{7}, 32)))
		_, pt, e := saltpack.SigncryptOpen(out, stranger, hResolver{ids: [][]byte{[]byte("nobody")}, keys: [][]byte{bytes.Repeat([]byte{1}, 32)}})
		if errClass(e) != "ErrNoDecryptionKey" || pt != nil {
			fs = append(fs, Failure{Kind: "oracle", Key: "sc-open-stranger", Desc: fmt.Sprintf("holder of no recipient key: err %v, %d bytes", e, len(pt))})
		}
		// C08: the independent strict receiver written from the specs
		for i, sk := range unblist(c.A["bsk"]) {
			if c.A["spec"] != "1" {
				break
			}
			ro, re := refOpenSc(out, sk, nil, nil)
			if re != nil {
				fs = append(fs, Failure{Kind: "oracle", Key: "spec-nonconformant-signcryption-output", Desc: fmt.Sprintf("the reference receiver (box recipient %d) rejects the library's output: %v", i, re)})
				break
			}
			if !bytes.Equal(ro.plaintext, msg) || !bytes.Equal(ro.senderPk, signerPk) || ro.anon != (signerPk == nil) {
				fs = append(fs, Failure{Kind: "oracle", Key: "spec-decoder-disagrees-signcryption", Desc: "the reference receiver recovers a different plaintext/signer"})
				break
			}
		}
		for i := range keys {
			if c.A["spec"] != "1" {
				break
			}
			ro, re := refOpenSc(out, nil, keys[i], ids[i])
			if re != nil || !bytes.Equal(ro.plaintext, msg) {
				fs = append(fs, Failure{Kind: "oracle", Key: "spec-nonconformant-signcryption-output", Desc: fmt.Sprintf("the reference receiver (symmetric recipient %d) rejects the library's output: %v", i, re)})
				break
			}
		}
		// C19: the header order is the Fisher-Yates arrangement of (box recipients, then symmetric
		// recipients) under the drawn randomness; positions found with the reference receiver
		{
			var pos []int
			okp := true
			for _, sk := range unblist(c.A["bsk"]) {
				refHeaderOnly = true
				ro, re := refOpenSc(out, sk, nil, nil)
				refHeaderOnly = false
				if re != nil {
					okp = false
					break
				}
				pos = append(pos, ro.rcptIndex)
			}
			for i := range keys {
				refHeaderOnly = true
				ro, re := refOpenSc(out, nil, keys[i], ids[i])
				refHeaderOnly = false
				if re != nil {
					okp = false
					break
				}
				pos = append(pos, ro.rcptIndex)
			}
			if okp && len(pos) > 1 && len(unblist(c.A["bsk"])) == len(unblist(c.A["boxes"])) {
				if f := shuffleOrderFailure("sc-recipient-order-not-fisher-yates", unhx(c.A["rng"]), pos); f != nil {
					fs = append(fs, *f)
				}
			}
		}
		// C19: the sender's key and box recipients' keys are nowhere in the bytes
		if signerPk != nil && bytes.Contains(out, signerPk) {
			fs = append(fs, Failure{Kind: "oracle", Key: "sc-wire-contains-sender-key", Desc: "the signer's public key appears in the signcrypted bytes"})
		}
		for i, pk := range unblist(c.A["boxes"]) {
			if bytes.Contains(out, pk) {
				fs = append(fs, Failure{Kind: "oracle", Key: "sc-wire-names-box-recipient", Desc: fmt.Sprintf("box recipient %d is named in the bytes", i)})
			}
		}
		for i := range ids {
			if n := bytes.Count(out, ids[i]); n != 1 && len(ids[i]) >= 8 {
				fs = append(fs, Failure{Kind: "oracle", Key: "sc-wire-sym-identifier-count", Desc: fmt.Sprintf("symmetric identifier %d appears %d times", i, n)})
			}
		}
		return
	}}

	evaluators["sc_open"] = evaluator{run: func(h *H, c Case) (fs []Failure) {
		ring := makeRing(c.A["keys"], "all", c.A["signers"])
		res := makeResolver(c.A["resolver"])
		input := unhx(c.A["input"])
		bufsize, _ := strconv.Atoi(c.A["buf"])
		if bufsize <= 0 {
			bufsize = 4096
		}
		o := implScOpen(ring, res, input, bufsize)
		got := o.String()
		// the same stream pulled the way many callers do (a fixed-size prefix, then io.Copy): same outcome
		for _, k := range []int{1, 16, 1 << 20} {
			consumePattern = k
			o2 := implScOpen(ring, res, input, bufsize)
			consumePattern = 0
			if o2.String() != got {
				fs = append(fs, Failure{Kind: "oracle", Key: "sc-open-result-depends-on-read-pattern", Desc: fmt.Sprintf("read loop: %.150s | %d-byte prefix then io.Copy: %.150s", got, k, o2.String())})
				break
			}
		}
		m := strings.Join(h.rn.Call("sc_open", c.A["keys"], c.A["signers"], c.A["resolver"], hx(input)), " ")
		if strings.Contains(m, "Unmodelled") {
			h.res.Unmodelled++
		} else if decodeOrderOnly(m, got) {
			h.res.Unmodelled++
		} else if m != got {
			fs = append(fs, Failure{Kind: "correspondence", Key: "sc-open-stream", Desc: fmt.Sprintf("model %.300s | impl %.300s", m, got)})
		}
		if strings.Contains(got, "PANIC") {
			fs = append(fs, Failure{Kind: "oracle", Key: "sc-open-panic", Desc: clip(got, 300)})
		}
		var pt []byte
		var e error
		if pe := guard(func() error { _, pt, e = saltpack.SigncryptOpen(input, ring, res); return nil }); pe != nil {
			fs = append(fs, Failure{Kind: "oracle", Key: "sc-open-panic", Desc: clip(pe.Error(), 300)})
			return
		}
		clean := o.hdrErr == nil && o.end == io.EOF
		if clean != (e == nil) || (e == nil && !bytes.Equal(pt, o.released)) || (e != nil && pt != nil) {
			fs = append(fs, Failure{Kind: "oracle", Key: "sc-open-forms-disagree", Desc: fmt.Sprintf("stream: %.120s ; SigncryptOpen: %d bytes, %v", got, len(pt), e)})
		}
		if f := armoredFormFailure("sc-open", input, saltpack.MessageTypeEncryption, e, pt, func(txt string) ([]byte, bool, error) {
			_, p2, _, e2 := saltpack.Dearmor62SigncryptOpen(txt, ring, res)
			return p2, false, e2
		}); f != nil {
			fs = append(fs, *f)
		}
		if w, ok := c.A["want"]; ok {
			bad := o.hdrErr != nil || o.end != io.EOF || !bytes.Equal(o.released, unhx(w))
			if !bad {
				if c.A["want_signer"] == "anon" {
					bad = o.signer != nil
				} else {
					bad = o.signer == nil || hx(o.signer.ToKID()) != c.A["want_signer"]
				}
			}
			if bad {
				fs = append(fs, Failure{Kind: "oracle", Key: "sc-open-rejects-spec-message", Desc: fmt.Sprintf("a message produced by the reference sender (%s) was not accepted as expected: %.200s", c.A["knobs"], got)})
			}
			if !bad && c.A["keys"] != "_" && c.A["resolver"] == "none" {
				// the same message through package basic's keyring (the recipient's key among others)
				for try := 0; try < 2; try++ {
					var pt2 []byte
					var e2 error
					if pe := guard(func() error {
						_, pt2, e2 = saltpack.SigncryptOpen(input, basicRing(c.A["keys"], h.rng), nil)
						return nil
					}); pe != nil {
						e2 = pe
					}
					if e2 != nil || !bytes.Equal(pt2, unhx(w)) {
						fs = append(fs, Failure{Kind: "oracle", Key: "sc-open-basic-keyring-rejects-spec-message", Desc: fmt.Sprintf("a message produced by the reference sender (%s) does not open with package basic's keyring holding the recipient's key among 3 others: %v", c.A["knobs"], e2)})
						break
					}
				}
			}
		}
		if rk, ok := c.A["must_reject"]; ok && o.hdrErr == nil && (len(o.released) > 0 || o.end == io.EOF) {
			fs = append(fs, Failure{Kind: "oracle", Key: rk, Desc: fmt.Sprintf("%s: accepted: %.160s", c.A["why"], got)})
		}
		if t, ok := c.A["truth"]; ok && o.hdrErr == nil && o.signer != nil && bytes.Equal(o.signer.ToKID(), unhx(c.A["honest"])) {
			whole, pref := isPrefixOfAny(o.released, unblist(t))
			if !pref {
				fs = append(fs, Failure{Kind: "oracle", Key: "sc-open-releases-unsigned-bytes", Desc: fmt.Sprintf("released %.80s attributed to the honest signer is not a prefix of anything it signcrypted (mutation %s)", hx(o.released), c.A["mut"])})
			} else if o.end == io.EOF && !whole {
				fs = append(fs, Failure{Kind: "oracle", Key: "sc-open-clean-end-on-partial-message", Desc: fmt.Sprintf("clean end after %d bytes of a longer message (mutation %s)", len(o.released), c.A["mut"])})
			}
		}
		// anonymous sender: nobody but the recipients holds the payload key of the genuine message, so what
		// a key-less manipulation of it makes the receiver release is still a prefix of it
		if t, ok := c.A["truth"]; ok && c.A["honest"] == "anon" && o.hdrErr == nil && o.signer == nil {
			whole, pref := isPrefixOfAny(o.released, unblist(t))
			if !pref {
				fs = append(fs, Failure{Kind: "oracle", Key: "sc-open-anon-releases-foreign-bytes", Desc: fmt.Sprintf("released %d bytes (%.40s...) that are not a prefix of the anonymous sender's plaintext (mutation %s)", len(o.released), hx(o.released), c.A["mut"])})
			} else if o.end == io.EOF && !whole {
				fs = append(fs, Failure{Kind: "oracle", Key: "sc-open-anon-clean-end-on-partial-message", Desc: fmt.Sprintf("clean end after %d bytes of a longer anonymous message (mutation %s)", len(o.released), c.A["mut"])})
			}
		}
		return
	}, trivial: func(c Case) bool { return c.A["input"] == "-" }}
}
