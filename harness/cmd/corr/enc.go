package main

import (
	"bytes"
	"fmt"
	"io"
	"strconv"
	"strings"

	"github.com/keybase/saltpack"
)

func implSeal(v saltpack.Version, sender string, rcpts string, pieces [][]byte, rng []byte, oneshot bool) (out []byte, left int, err error) {
	var sk saltpack.BoxSecretKey
	if sender != "anon" {
		sk = boxSecretFromBytes(unhx(sender))
	}
	receivers, _, _ := parseRcpts(rcpts)
	left = withRand(rng, func() {
		err = guard(func() error {
			if oneshot {
				var e error
				out, e = saltpack.Seal(v, bytes.Join(pieces, nil), sk, receivers)
				return e
			}
			var buf bytes.Buffer
			w, e := saltpack.NewEncryptStream(v, &buf, sk, receivers)
			if e != nil {
				return e
			}
			if e := writePieces(w, pieces); e != nil {
				return e
			}
			if e := w.Close(); e != nil {
				return e
			}
			out = buf.Bytes()
			return nil
		})
	})
	return
}

type openOut struct {
	hdrErr   error
	mki      *saltpack.MessageKeyInfo
	released []byte
	end      error
}

func implOpenStream(vd saltpack.VersionValidator, ring *hRing, input []byte, bufsize int) (o openOut) {
	e := guard(func() error {
		mki, st, err := saltpack.NewDecryptStream(vd, bytes.NewReader(input), ring)
		if err != nil {
			o.hdrErr = err
			return nil
		}
		o.mki = mki
		o.released, o.end = readAllChunked(st, bufsize)
		return nil
	})
	if e != nil {
		if o.mki == nil {
			o.hdrErr = e
		} else {
			o.end = e
		}
	}
	return
}

func b01(b bool) string {
	if b {
		return "1"
	}
	return "0"
}

func (o openOut) String() string {
	if o.hdrErr != nil {
		return "err " + errClassHeader(o.hdrErr)
	}
	m := o.mki
	return strings.Join([]string{"ok", hx(m.SenderKey.ToKID()), b01(m.SenderIsAnon), hx(m.ReceiverKey.GetPublicKey().ToKID()),
		b01(m.ReceiverIsAnon), blist(m.NamedReceivers), strconv.Itoa(m.NumAnonReceivers), hx(o.released), errClass(o.end)}, " ")
}

func clip(s string, n int) string {
	if len(s) > n {
		return s[:n]
	}
	return s
}

func init() {
	evaluators["seal"] = evaluator{run: func(h *H, c Case) (fs []Failure) {
		v := parseVersion(c.A["v"])
		pieces := unblist(c.A["pieces"])
		rng := unhx(c.A["rng"])
		msg := bytes.Join(pieces, nil)
		out, left, err := implSeal(v, c.A["sender"], c.A["rcpts"], pieces, rng, c.A["oneshot"] == "1")
		if f := retainedChanged(); f != nil {
			fs = append(fs, *f)
		}
		if err == nil && c.A["oneshot"] == "1" {
			retain("Seal", out)
		}
		got := "err " + errClass(err)
		if err == nil {
			got = fmt.Sprintf("ok %s %d", hx(out), left)
		}
		m := strings.Join(h.rn.Call("seal", c.A["v"], c.A["sender"], c.A["rcpts"], c.A["pieces"], hx(rng)), " ")
		if m != got {
			fs = append(fs, Failure{Kind: "correspondence", Key: "seal", Desc: fmt.Sprintf("model %.200s | impl %.200s", m, got)})
		}
		if err != nil && strings.HasPrefix(err.Error(), "PANIC") {
			fs = append(fs, Failure{Kind: "oracle", Key: "seal-panic", Desc: clip(err.Error(), 200)})
			return
		}
		known := v == saltpack.Version1() || v == saltpack.Version2()
		if !known {
			if err == nil {
				fs = append(fs, Failure{Kind: "oracle", Key: "seal-emits-unknown-version", Desc: "Seal emitted a message labelled version " + c.A["v"]})
			} else if errClass(err) != "ErrBadVersion" {
				fs = append(fs, Failure{Kind: "oracle", Key: "seal-unknown-version-error", Desc: "unknown version not refused with ErrBadVersion: " + errClass(err)})
			}
			return
		}
		if c.A["expect"] == "any" {
			return
		}
		if c.A["expect"] == "fail" {
			if err == nil {
				fs = append(fs, Failure{Kind: "oracle", Key: "seal-fail-open", Desc: "sealing succeeded although " + c.A["why"]})
			}
			return
		}
		if err != nil {
			fs = append(fs, Failure{Kind: "oracle", Key: "seal-fails", Desc: "sealing failed: " + errClass(err)})
			return
		}
		// C01 round trip: every recipient position, plus a stranger
		_, pks, hide := parseRcpts(c.A["rcpts"])
		rsks := unblist(c.A["rsk"])
		var senderPk []byte
		if c.A["sender"] != "anon" {
			senderPk = boxSecretFromBytes(unhx(c.A["sender"])).GetPublicKey().ToKID()
		}
		for i := range pks {
			ring := &hRing{keys: nil, allSenders: true}
			ring.keys = append(ring.keys, boxSecretFromBytes(rsks[i]))
			mki, pt, e := saltpack.Open(saltpack.CheckKnownMajorVersion, out, ring)
			bad := e != nil || !bytes.Equal(pt, msg)
			if !bad {
				if senderPk == nil {
					bad = !mki.SenderIsAnon
				} else {
					bad = mki.SenderIsAnon || !bytes.Equal(mki.SenderKey.ToKID(), senderPk)
				}
				bad = bad || !bytes.Equal(mki.ReceiverKey.GetPublicKey().ToKID(), pks[i]) || mki.ReceiverIsAnon != hide[i]
			}
			if bad {
				fs = append(fs, Failure{Kind: "oracle", Key: "seal-roundtrip", Desc: fmt.Sprintf("recipient %d of %d (hidden=%v): Open gives %d bytes, err %v, mki %+v", i, len(pks), hide[i], len(pt), e, mki)})
				break
			}
			o := implOpenStream(saltpack.SingleVersionValidator(v), ring, out, 1+h.rng.Intn(100))
			if o.hdrErr != nil || o.end != io.EOF || !bytes.Equal(o.released, msg) {
				fs = append(fs, Failure{Kind: "oracle", Key: "seal-roundtrip-stream", Desc: "streaming open of a genuine message: " + clip(o.String(), 200)})
				break
			}
			if i == 0 {
				// the armored entry points agree (all-at-once and streaming with io.ReadAll's growing buffers)
				if pe := guard(func() error {
					txt, e := saltpack.Armor62Seal(out, saltpack.MessageTypeEncryption, "")
					if e != nil {
						return e
					}
					_, pt2, _, e := saltpack.Dearmor62DecryptOpen(saltpack.CheckKnownMajorVersion, txt, ring)
					if e != nil || !bytes.Equal(pt2, msg) {
						return fmt.Errorf("Dearmor62DecryptOpen: %d bytes, err %v", len(pt2), e)
					}
					_, rd, _, e := saltpack.NewDearmor62DecryptStream(saltpack.CheckKnownMajorVersion, strings.NewReader(txt), ring)
					if e != nil {
						return e
					}
					pt3, e := io.ReadAll(rd)
					if e != nil || !bytes.Equal(pt3, msg) {
						return fmt.Errorf("NewDearmor62DecryptStream: %d bytes, err %v", len(pt3), e)
					}
					return nil
				}); pe != nil {
					fs = append(fs, Failure{Kind: "oracle", Key: "seal-roundtrip-armored", Desc: fmt.Sprintf("armored form of a genuine %d-byte message does not open: %.200s", len(msg), pe.Error())})
					break
				}
			}
		}
		stranger := &hRing{allSenders: true}
		stranger.keys = append(stranger.keys, boxSecretFromBytes(bytes.Repeat([]byte{7}, 32)))
		_, pt, e := saltpack.Open(saltpack.CheckKnownMajorVersion, out, stranger)
		if errClass(e) != "ErrNoDecryptionKey" || pt != nil {
			fs = append(fs, Failure{Kind: "oracle", Key: "open-stranger", Desc: fmt.Sprintf("keyring without a recipient key: err %v, %d bytes", e, len(pt))})
		}
		// C08: the independent strict receiver written from the specs, as every recipient
		for i := range pks {
			if c.A["spec"] != "1" {
				break
			}
			ro, re := refOpenEnc(out, rsks[i])
			if re != nil {
				fs = append(fs, Failure{Kind: "oracle", Key: "spec-nonconformant-encryption-output", Desc: fmt.Sprintf("the reference receiver (recipient %d) rejects the library's output: %v", i, re)})
				break
			}
			wantSender := senderPk
			if wantSender == nil {
				wantSender = ro.ephPk
			}
			if !bytes.Equal(ro.plaintext, msg) || !bytes.Equal(ro.senderPk, wantSender) || ro.anon != (senderPk == nil) || ro.rcptHidden != hide[i] || ro.major != v.Major || ro.minor != v.Minor {
				fs = append(fs, Failure{Kind: "oracle", Key: "spec-decoder-disagrees-encryption", Desc: fmt.Sprintf("the reference receiver (recipient %d) recovers a different plaintext/sender/visibility/version", i)})
				break
			}
		}
		// C19: the header order is the Fisher-Yates arrangement of the caller's order under the drawn
		// randomness; each recipient's position found with the reference receiver
		if len(pks) > 1 {
			var pos []int
			for i := range pks {
				refHeaderOnly = true
				ro, re := refOpenEnc(out, rsks[i])
				refHeaderOnly = false
				if re != nil {
					pos = nil
					break
				}
				pos = append(pos, ro.rcptIndex)
			}
			if pos != nil {
				if f := shuffleOrderFailure("recipient-order-not-fisher-yates", rng, pos); f != nil {
					fs = append(fs, *f)
				}
			}
		}
		// C19: identities on the wire
		if senderPk != nil {
			vis := false
			for i := range pks {
				if !hide[i] && bytes.Equal(pks[i], senderPk) {
					vis = true
				}
			}
			if !vis && bytes.Contains(out, senderPk) {
				fs = append(fs, Failure{Kind: "oracle", Key: "wire-contains-sender-key", Desc: "the sender's long-term public key appears in the ciphertext bytes"})
			}
		}
		for i := range pks {
			n := bytes.Count(out, pks[i])
			if hide[i] && n != 0 {
				fs = append(fs, Failure{Kind: "oracle", Key: "wire-names-hidden-recipient", Desc: fmt.Sprintf("hidden recipient %d is named in the bytes", i)})
			}
			if !hide[i] && n != 1 {
				fs = append(fs, Failure{Kind: "oracle", Key: "wire-visible-recipient-count", Desc: fmt.Sprintf("visible recipient %d appears %d times", i, n)})
			}
		}
		return
	}}

	evaluators["open"] = evaluator{run: func(h *H, c Case) (fs []Failure) {
		vd := parseValidator(c.A["vd"])
		ring := makeRing(c.A["keys"], c.A["senders"], "")
		input := unhx(c.A["input"])
		bufsize, _ := strconv.Atoi(c.A["buf"])
		if bufsize <= 0 {
			bufsize = 4096
		}
		o := implOpenStream(vd, ring, input, bufsize)
		got := o.String()
		// the same stream pulled the way many callers do (a fixed-size prefix, then io.Copy): same outcome
		for _, k := range []int{1, 16, 1 << 20} {
			consumePattern = k
			o2 := implOpenStream(vd, ring, input, bufsize)
			consumePattern = 0
			if o2.String() != got {
				fs = append(fs, Failure{Kind: "oracle", Key: "open-result-depends-on-read-pattern", Desc: fmt.Sprintf("read loop: %.150s | %d-byte prefix then io.Copy: %.150s", got, k, o2.String())})
				break
			}
		}
		m := strings.Join(h.rn.Call("open", c.A["vd"], c.A["keys"], c.A["senders"], hx(input)), " ")
		if strings.Contains(m, "Unmodelled") {
			h.res.Unmodelled++
		} else if decodeOrderOnly(m, got) {
			h.res.Unmodelled++
		} else if m != got {
			fs = append(fs, Failure{Kind: "correspondence", Key: "open-stream", Desc: fmt.Sprintf("model %.300s | impl %.300s", m, got)})
		}
		if strings.Contains(got, "PANIC") {
			fs = append(fs, Failure{Kind: "oracle", Key: "open-panic", Desc: clip(got, 300)})
		}
		var mki *saltpack.MessageKeyInfo
		var pt []byte
		var e error
		if pe := guard(func() error { mki, pt, e = saltpack.Open(vd, input, ring); return nil }); pe != nil {
			fs = append(fs, Failure{Kind: "oracle", Key: "open-panic", Desc: clip(pe.Error(), 300)})
			return
		}
		_ = mki
		clean := o.hdrErr == nil && o.end == io.EOF
		if clean != (e == nil) || (e == nil && !bytes.Equal(pt, o.released)) || (e != nil && pt != nil) {
			fs = append(fs, Failure{Kind: "oracle", Key: "open-forms-disagree", Desc: fmt.Sprintf("stream: %.120s ; Open: %d bytes, %v", got, len(pt), e)})
		}
		if f := armoredFormFailure("open", input, saltpack.MessageTypeEncryption, e, pt, func(txt string) ([]byte, bool, error) {
			_, p2, _, e2 := saltpack.Dearmor62DecryptOpen(vd, txt, ring)
			return p2, false, e2
		}); f != nil {
			fs = append(fs, *f)
		}
		if w, ok := c.A["want"]; ok {
			// a message a spec-following sender produced: must be accepted with exactly this outcome
			bad := o.hdrErr != nil || o.end != io.EOF || !bytes.Equal(o.released, unhx(w))
			if !bad {
				if c.A["want_sender"] == "anon" {
					bad = !o.mki.SenderIsAnon
				} else {
					bad = o.mki.SenderIsAnon || hx(o.mki.SenderKey.ToKID()) != c.A["want_sender"]
				}
				bad = bad || b01(o.mki.ReceiverIsAnon) != c.A["want_hidden"]
			}
			if bad {
				fs = append(fs, Failure{Kind: "oracle", Key: "open-rejects-spec-message", Desc: fmt.Sprintf("a message produced by the reference sender (%s) was not accepted as expected: %.200s", c.A["knobs"], got)})
			}
		}
		if w, ok := c.A["want"]; ok && c.A["senders"] == "all" && c.A["keys"] != "_" {
			// the same message through package basic's keyring (the recipient's key among others)
			for try := 0; try < 2; try++ {
				var pt2 []byte
				var e2 error
				if pe := guard(func() error { _, pt2, e2 = saltpack.Open(vd, input, basicRing(c.A["keys"], h.rng)); return nil }); pe != nil {
					e2 = pe
				}
				if e2 != nil || !bytes.Equal(pt2, unhx(w)) {
					fs = append(fs, Failure{Kind: "oracle", Key: "open-basic-keyring-rejects-spec-message", Desc: fmt.Sprintf("a message produced by the reference sender (%s) does not open with package basic's keyring holding the recipient's key among 3 others: %v", c.A["knobs"], e2)})
					break
				}
			}
		}
		if rk, ok := c.A["must_reject"]; ok && o.hdrErr == nil && (len(o.released) > 0 || o.end == io.EOF) {
			fs = append(fs, Failure{Kind: "oracle", Key: rk, Desc: fmt.Sprintf("%s: accepted: %.160s", c.A["why"], got)})
		}
		if t, ok := c.A["truth"]; ok && o.hdrErr == nil && !o.mki.SenderIsAnon && bytes.Equal(o.mki.SenderKey.ToKID(), unhx(c.A["honest"])) {
			whole, pref := isPrefixOfAny(o.released, unblist(t))
			if !pref {
				fs = append(fs, Failure{Kind: "oracle", Key: "open-releases-unauthentic-bytes", Desc: fmt.Sprintf("released %.80s attributed to the honest sender is not a prefix of anything it encrypted to this recipient (mutation %s)", hx(o.released), c.A["mut"])})
			} else if o.end == io.EOF && !whole {
				fs = append(fs, Failure{Kind: "oracle", Key: "open-clean-end-on-partial-message", Desc: fmt.Sprintf("clean end after %d bytes of a longer message (mutation %s)", len(o.released), c.A["mut"])})
			}
		}
		return
	}, trivial: func(c Case) bool { return c.A["input"] == "-" }}
}
