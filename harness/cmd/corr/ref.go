package main

// ref.go — an independent saltpack sender and strict receiver written from
// /repo/specs/*.md only (no code shared with /repo apart from the NaCl
// primitive libraries).  The sender has knobs for everything the specs leave
// open or reserve for forward compatibility; the strict receiver authenticates
// every packet and rejects anything the specs do not describe.  Used as the
// reference implementation of C08/C09 and to build spec-aware forgeries.

import (
	"bytes"
	"crypto/hmac"
	"crypto/sha512"
	"encoding/binary"
	"errors"
	"fmt"

	"golang.org/x/crypto/curve25519"
	"golang.org/x/crypto/ed25519"
	"golang.org/x/crypto/nacl/box"
	"golang.org/x/crypto/nacl/secretbox"
)

func n24(s string) *[24]byte {
	var n [24]byte
	if len(s) != 24 {
		panic("nonce length")
	}
	copy(n[:], s)
	return &n
}

func idxNonce(prefix string, i uint64) *[24]byte {
	var n [24]byte
	copy(n[:], prefix)
	binary.BigEndian.PutUint64(n[16:], i)
	return &n
}

func hashNonce(hh []byte, flag bool, i uint64) *[24]byte {
	var n [24]byte
	copy(n[:16], hh[:16])
	n[15] &= 0xfe
	if flag {
		n[15] |= 1
	}
	binary.BigEndian.PutUint64(n[16:], i)
	return &n
}

func k32(b []byte) *[32]byte {
	var k [32]byte
	copy(k[:], b)
	return &k
}

func pubOf(sk []byte) []byte {
	var p [32]byte
	curve25519.ScalarBaseMult(&p, k32(sk))
	return p[:]
}

func sha(parts ...[]byte) []byte {
	h := sha512.New()
	for _, p := range parts {
		h.Write(p)
	}
	return h.Sum(nil)
}

func hmac32(key []byte, parts ...[]byte) []byte {
	m := hmac.New(sha512.New, key)
	for _, p := range parts {
		m.Write(p)
	}
	return m.Sum(nil)[:32]
}

func boxZeros(sk, pk []byte, nonce *[24]byte) []byte {
	out := box.Seal(nil, make([]byte, 32), nonce, k32(pk), k32(sk))
	return out[len(out)-32:]
}

// ---------- encryption ----------

type refRcpt struct {
	pk   []byte
	hide bool
}

type refEnc struct {
	format       string
	major, minor int
	mode         int
	senderSk     []byte // nil: anonymous (the ephemeral key is the sender)
	ephSk        []byte
	payloadKey   []byte
	rcpts        []refRcpt
	chunks       [][]byte // explicit chunking (V1: the terminating empty chunk is added automatically)
	extraHeader  bool     // extra trailing elements in the header list
	extraRcpt    bool     // ... in each recipient pair
	extraPacket  bool     // ... in each payload packet
	hiddenAsBin  bool     // anonymous recipient id as an empty bin instead of nil
	// forging knobs
	forgeSenderPk []byte                                    // put this key into the sender secretbox
	macKeyFor     func(i int, hh []byte) []byte             // override the MAC key of recipient i
	tamperPacket  func(n int, final bool, ct []byte) []byte // change a ciphertext after the authenticators were computed
	finalOverride map[int]bool
	noTerminator  bool
	authShape     func(al []*mpNode) []*mpNode  // reshape the authenticator list of each packet
	ctOverride    func(n int, ct []byte) []byte // replace the ciphertext BEFORE the authenticators are computed
}

func (p *refEnc) macKey(i int, hh []byte) []byte {
	if p.macKeyFor != nil {
		if k := p.macKeyFor(i, hh); k != nil {
			return k
		}
	}
	ssk := p.senderSk
	if ssk == nil {
		ssk = p.ephSk
	}
	if p.major == 1 {
		return boxZeros(ssk, p.rcpts[i].pk, k24(hh[:24]))
	}
	a := boxZeros(ssk, p.rcpts[i].pk, hashNonce(hh, false, uint64(i)))
	b := boxZeros(p.ephSk, p.rcpts[i].pk, hashNonce(hh, true, uint64(i)))
	return sha(a, b)[:32]
}

func k24(b []byte) *[24]byte {
	var n [24]byte
	copy(n[:], b)
	return &n
}

func (p *refEnc) header() (hdr []byte) {
	ssk := p.senderSk
	if ssk == nil {
		ssk = p.ephSk
	}
	spk := pubOf(ssk)
	if p.forgeSenderPk != nil {
		spk = p.forgeSenderPk
	}
	sbox := secretbox.Seal(nil, spk, n24("saltpack_sender_key_sbox"), k32(p.payloadKey))
	var rl []*mpNode
	for i, r := range p.rcpts {
		var nonce *[24]byte
		if p.major == 1 {
			nonce = n24("saltpack_payload_key_box")
		} else {
			nonce = idxNonce("saltpack_recipsb", uint64(i))
		}
		kb := box.Seal(nil, p.payloadKey, nonce, k32(r.pk), k32(p.ephSk))
		id := nBin(r.pk)
		if r.hide {
			id = nNil()
			if p.hiddenAsBin {
				id = nBin(nil)
			}
		}
		pair := nArr(id, nBin(kb))
		if p.extraRcpt {
			pair.Arr = append(pair.Arr, nInt(42))
		}
		rl = append(rl, pair)
	}
	h := nArr(nStr(p.format), nArr(nInt(int64(p.major)), nInt(int64(p.minor))), nInt(int64(p.mode)),
		nBin(pubOf(p.ephSk)), nBin(sbox), &mpNode{Kind: mpArr, Arr: rl})
	if p.extraHeader {
		h.Arr = append(h.Arr, nStr("reserved"), nArr(nInt(1)))
	}
	return mpEnc(h)
}

func (p *refEnc) seal() []byte {
	hdr := p.header()
	hh := sha(hdr)
	out := mpEnc(nBin(hdr))
	var macKeys [][]byte
	for i := range p.rcpts {
		macKeys = append(macKeys, p.macKey(i, hh))
	}
	chunks := p.chunks
	if p.major == 1 && !p.noTerminator {
		chunks = append(append([][]byte{}, chunks...), nil)
	}
	for n, ch := range chunks {
		final := n == len(chunks)-1
		if p.major == 1 {
			final = len(ch) == 0
		}
		if f, ok := p.finalOverride[n]; ok {
			final = f
		}
		nonce := idxNonce("saltpack_ploadsb", uint64(n))
		ct := secretbox.Seal(nil, ch, nonce, k32(p.payloadKey))
		if p.ctOverride != nil {
			ct = p.ctOverride(n, ct)
		}
		var ph []byte
		if p.major == 1 {
			ph = sha(hh, nonce[:], ct)
		} else {
			fb := []byte{0}
			if final {
				fb[0] = 1
			}
			ph = sha(hh, nonce[:], fb, ct)
		}
		var al []*mpNode
		for i := range p.rcpts {
			al = append(al, nBin(hmac32(macKeys[i], ph)))
		}
		if p.authShape != nil {
			al = p.authShape(al)
		}
		if p.tamperPacket != nil {
			ct = p.tamperPacket(n, final, ct)
		}
		var pk *mpNode
		if p.major == 1 {
			pk = nArr(&mpNode{Kind: mpArr, Arr: al}, nBin(ct))
		} else {
			pk = nArr(nBool(final), &mpNode{Kind: mpArr, Arr: al}, nBin(ct))
		}
		if p.extraPacket {
			pk.Arr = append(pk.Arr, nNil(), nInt(5))
		}
		out = append(out, mpEnc(pk)...)
	}
	return out
}

// ---------- strict receiver (encryption) ----------

type refOpened struct {
	mode         int
	major, minor int
	plaintext    []byte
	senderPk     []byte // encryption: long-term or ephemeral key; signing/signcryption: signing key (nil = anonymous)
	anon         bool
	rcptIndex    int
	rcptHidden   bool
	rcptIDs      [][]byte // nil entries: anonymous
	payloadKey   []byte
	ephPk        []byte
	sigNonce     []byte
	chunkLens    []int
}

func wantMinimal(raw []byte, n *mpNode) error {
	if !bytes.Equal(mpEnc(n), raw) {
		return errors.New("not the minimal MessagePack encoding")
	}
	return nil
}

func binOf(n *mpNode, what string, size int) ([]byte, error) {
	if n.Kind != mpBin {
		return nil, fmt.Errorf("%s is not a byte string (kind %d)", what, n.Kind)
	}
	if size >= 0 && len(n.Bytes) != size {
		return nil, fmt.Errorf("%s has %d bytes, want %d", what, len(n.Bytes), size)
	}
	return n.Bytes, nil
}

// parseHeader splits the wire message into the header list and the remaining packets
func refParseHeader(msg []byte, wantFields int) (hdrBytes []byte, h *mpNode, rest []byte, err error) {
	outer, rest, err := mpParse(msg)
	if err != nil {
		return nil, nil, nil, fmt.Errorf("header packet: %v", err)
	}
	if err := wantMinimal(msg[:len(msg)-len(rest)], outer); err != nil {
		return nil, nil, nil, fmt.Errorf("header packet: %v", err)
	}
	hdrBytes, err = binOf(outer, "header packet", -1)
	if err != nil {
		return nil, nil, nil, err
	}
	h, tail, err := mpParse(hdrBytes)
	if err != nil || len(tail) != 0 {
		return nil, nil, nil, fmt.Errorf("header list: %v (trailing %d)", err, len(tail))
	}
	if err := wantMinimal(hdrBytes, h); err != nil {
		return nil, nil, nil, fmt.Errorf("header list: %v", err)
	}
	if h.Kind != mpArr || len(h.Arr) < wantFields {
		return nil, nil, nil, errors.New("header is not a list with the specified fields")
	}
	if h.Arr[0].Kind != mpStr || string(h.Arr[0].Bytes) != "saltpack" {
		return nil, nil, nil, errors.New("format name is not the string \"saltpack\"")
	}
	v := h.Arr[1]
	if v.Kind != mpArr || len(v.Arr) < 2 || v.Arr[0].Kind != mpInt || v.Arr[1].Kind != mpInt {
		return nil, nil, nil, errors.New("bad version")
	}
	if h.Arr[2].Kind != mpInt {
		return nil, nil, nil, errors.New("bad mode")
	}
	return
}

// refOpenEnc opens an encryption-mode message as the holder of secret key sk.
func refOpenEnc(msg []byte, sk []byte) (*refOpened, error) {
	hdrBytes, h, rest, err := refParseHeader(msg, 6)
	if err != nil {
		return nil, err
	}
	o := &refOpened{mode: int(h.Arr[2].I), major: int(h.Arr[1].Arr[0].I), minor: int(h.Arr[1].Arr[1].I), rcptIndex: -1}
	if o.mode != 0 {
		return nil, errors.New("mode is not encryption")
	}
	if o.major != 1 && o.major != 2 {
		return nil, errors.New("unknown major version")
	}
	hh := sha(hdrBytes)
	eph, err := binOf(h.Arr[3], "ephemeral public key", 32)
	if err != nil {
		return nil, err
	}
	o.ephPk = eph
	sbox, err := binOf(h.Arr[4], "sender secretbox", 48)
	if err != nil {
		return nil, err
	}
	rl := h.Arr[5]
	if rl.Kind != mpArr || len(rl.Arr) == 0 {
		return nil, errors.New("recipients list missing or empty")
	}
	mypk := pubOf(sk)
	for i, pair := range rl.Arr {
		if pair.Kind != mpArr || len(pair.Arr) < 2 {
			return nil, errors.New("bad recipient pair")
		}
		var id []byte
		switch pair.Arr[0].Kind {
		case mpNil:
		case mpBin:
			id = pair.Arr[0].Bytes
			if len(id) != 32 {
				return nil, fmt.Errorf("recipient public key has %d bytes", len(id))
			}
		default:
			return nil, errors.New("recipient id is neither null nor a byte string")
		}
		o.rcptIDs = append(o.rcptIDs, id)
		kb, err := binOf(pair.Arr[1], "payload key box", 48)
		if err != nil {
			return nil, err
		}
		if o.payloadKey != nil {
			continue
		}
		if id != nil && !bytes.Equal(id, mypk) {
			continue
		}
		var nonce *[24]byte
		if o.major == 1 {
			nonce = n24("saltpack_payload_key_box")
		} else {
			nonce = idxNonce("saltpack_recipsb", uint64(i))
		}
		if pkey, ok := box.Open(nil, kb, nonce, k32(eph), k32(sk)); ok {
			o.payloadKey, o.rcptIndex, o.rcptHidden = pkey, i, id == nil
		}
	}
	if o.payloadKey == nil {
		return nil, errors.New("no payload key box opens")
	}
	spk, ok := secretbox.Open(nil, sbox, n24("saltpack_sender_key_sbox"), k32(o.payloadKey))
	if !ok || len(spk) != 32 {
		return nil, errors.New("sender secretbox does not open to a 32-byte key")
	}
	o.senderPk = spk
	o.anon = bytes.Equal(spk, eph)
	var macKey []byte
	if o.major == 1 {
		macKey = boxZeros(sk, spk, k24(hh[:24]))
	} else {
		a := boxZeros(sk, spk, hashNonce(hh, false, uint64(o.rcptIndex)))
		b := boxZeros(sk, eph, hashNonce(hh, true, uint64(o.rcptIndex)))
		macKey = sha(a, b)[:32]
	}
	if refHeaderOnly {
		return o, nil
	}
	done := false
	for n := 0; len(rest) > 0; n++ {
		if done {
			return nil, errors.New("data after the final packet")
		}
		pk, r2, err := mpParse(rest)
		if err != nil {
			return nil, fmt.Errorf("payload packet %d: %v", n, err)
		}
		if err := wantMinimal(rest[:len(rest)-len(r2)], pk); err != nil {
			return nil, fmt.Errorf("payload packet %d: %v", n, err)
		}
		rest = r2
		if pk.Kind != mpArr {
			return nil, errors.New("payload packet is not a list")
		}
		var final bool
		var al, ctn *mpNode
		if o.major == 1 {
			if len(pk.Arr) < 2 {
				return nil, errors.New("short payload packet")
			}
			al, ctn = pk.Arr[0], pk.Arr[1]
		} else {
			if len(pk.Arr) < 3 || pk.Arr[0].Kind != mpBool {
				return nil, errors.New("bad payload packet / final flag")
			}
			final, al, ctn = pk.Arr[0].B, pk.Arr[1], pk.Arr[2]
		}
		ct, err := binOf(ctn, "payload secretbox", -1)
		if err != nil {
			return nil, err
		}
		if al.Kind != mpArr || len(al.Arr) != len(rl.Arr) {
			return nil, errors.New("authenticators list does not match the recipients")
		}
		for _, a := range al.Arr {
			if _, err := binOf(a, "authenticator", 32); err != nil {
				return nil, err
			}
		}
		nonce := idxNonce("saltpack_ploadsb", uint64(n))
		var ph []byte
		if o.major == 1 {
			ph = sha(hh, nonce[:], ct)
		} else {
			fb := []byte{0}
			if final {
				fb[0] = 1
			}
			ph = sha(hh, nonce[:], fb, ct)
		}
		if !hmac.Equal(hmac32(macKey, ph), al.Arr[o.rcptIndex].Bytes) {
			return nil, fmt.Errorf("packet %d: authenticator mismatch", n)
		}
		pt, ok := secretbox.Open(nil, ct, nonce, k32(o.payloadKey))
		if !ok {
			return nil, fmt.Errorf("packet %d: secretbox does not open", n)
		}
		if len(pt) > 1<<20 {
			return nil, errors.New("chunk larger than 1 MiB")
		}
		if o.major == 1 {
			final = len(pt) == 0
		} else if len(pt) == 0 && !(final && n == 0) {
			return nil, errors.New("empty chunk that is not the sole final chunk")
		}
		o.plaintext = append(o.plaintext, pt...)
		o.chunkLens = append(o.chunkLens, len(pt))
		done = final
	}
	if !done {
		return nil, errors.New("truncated: no final packet")
	}
	return o, nil
}

// ---------- signing ----------

type refSig struct {
	format        string
	major, minor  int
	mode          int // 1 attached, 2 detached
	sk            []byte
	nonce         []byte
	chunks        [][]byte
	msg           []byte // detached
	extraHeader   bool
	extraPacket   bool
	forgePk       []byte
	tamper        func(n int, chunk []byte) []byte // replace the chunk after signing
	finalOverride map[int]bool
	noTerminator  bool
	seqOverride   map[int]uint64
}

func (p *refSig) headerBytes() []byte {
	pk := []byte(ed25519.PrivateKey(p.sk).Public().(ed25519.PublicKey))
	if p.forgePk != nil {
		pk = p.forgePk
	}
	h := nArr(nStr(p.format), nArr(nInt(int64(p.major)), nInt(int64(p.minor))), nInt(int64(p.mode)), nBin(pk), nBin(p.nonce))
	if p.extraHeader {
		h.Arr = append(h.Arr, nInt(9), nStr("reserved"))
	}
	return mpEnc(h)
}

// signAs produces the wire layout of p.mode (1: header + packets, 2: header + signature)
// while the header's mode field says hdrMode.
func (p *refSig) signAs(hdrMode int) []byte {
	lay := p.mode
	q := *p
	q.mode = hdrMode
	hdr := q.headerBytes()
	q.mode = lay
	return q.signWithHeader(hdr)
}

func (p *refSig) sign() []byte { return p.signWithHeader(p.headerBytes()) }

func (p *refSig) signWithHeader(hdr []byte) []byte {
	hh := sha(hdr)
	out := mpEnc(nBin(hdr))
	if p.mode == 2 {
		sig := ed25519.Sign(ed25519.PrivateKey(p.sk), append([]byte("saltpack detached signature\x00"), sha(hh, p.msg)...))
		return append(out, mpEnc(nBin(sig))...)
	}
	chunks := p.chunks
	if p.major == 1 && !p.noTerminator {
		chunks = append(append([][]byte{}, chunks...), nil)
	}
	for n, ch := range chunks {
		final := n == len(chunks)-1
		if p.major == 1 {
			final = len(ch) == 0
		}
		if f, ok := p.finalOverride[n]; ok {
			final = f
		}
		seq := uint64(n)
		if s, ok := p.seqOverride[n]; ok {
			seq = s
		}
		var sq [8]byte
		binary.BigEndian.PutUint64(sq[:], seq)
		var hsh []byte
		if p.major == 1 {
			hsh = sha(hh, sq[:], ch)
		} else {
			fb := []byte{0}
			if final {
				fb[0] = 1
			}
			hsh = sha(hh, sq[:], fb, ch)
		}
		sig := ed25519.Sign(ed25519.PrivateKey(p.sk), append([]byte("saltpack attached signature\x00"), hsh...))
		if p.tamper != nil {
			ch = p.tamper(n, ch)
		}
		if ch == nil {
			ch = []byte{}
		}
		var pk *mpNode
		if p.major == 1 {
			pk = nArr(nBin(sig), nBin(ch))
		} else {
			pk = nArr(nBool(final), nBin(sig), nBin(ch))
		}
		if p.extraPacket {
			pk.Arr = append(pk.Arr, nInt(3))
		}
		out = append(out, mpEnc(pk)...)
	}
	return out
}

// refVerify strictly verifies an attached (mode 1) signature; for a detached one (mode 2) msg is the message.
func refVerify(wire []byte, mode int, msg []byte) (*refOpened, error) {
	hdrBytes, h, rest, err := refParseHeader(wire, 5)
	if err != nil {
		return nil, err
	}
	o := &refOpened{mode: int(h.Arr[2].I), major: int(h.Arr[1].Arr[0].I), minor: int(h.Arr[1].Arr[1].I)}
	if o.mode != mode {
		return nil, errors.New("wrong mode")
	}
	if o.major != 1 && o.major != 2 {
		return nil, errors.New("unknown major version")
	}
	pk, err := binOf(h.Arr[3], "sender public key", 32)
	if err != nil {
		return nil, err
	}
	o.senderPk = pk
	nonce, err := binOf(h.Arr[4], "nonce", -1)
	if err != nil {
		return nil, err
	}
	o.sigNonce = nonce
	hh := sha(hdrBytes)
	if mode == 2 {
		sn, r2, err := mpParse(rest)
		if err != nil {
			return nil, fmt.Errorf("signature: %v", err)
		}
		if err := wantMinimal(rest[:len(rest)-len(r2)], sn); err != nil {
			return nil, err
		}
		sig, err := binOf(sn, "signature", 64)
		if err != nil {
			return nil, err
		}
		if !ed25519.Verify(pk, append([]byte("saltpack detached signature\x00"), sha(hh, msg)...), sig) {
			return nil, errors.New("bad detached signature")
		}
		return o, nil
	}
	done := false
	for n := 0; len(rest) > 0; n++ {
		if done {
			return nil, errors.New("data after the final packet")
		}
		pkn, r2, err := mpParse(rest)
		if err != nil {
			return nil, fmt.Errorf("payload packet %d: %v", n, err)
		}
		if err := wantMinimal(rest[:len(rest)-len(r2)], pkn); err != nil {
			return nil, fmt.Errorf("payload packet %d: %v", n, err)
		}
		rest = r2
		if pkn.Kind != mpArr {
			return nil, errors.New("payload packet is not a list")
		}
		var final bool
		var sn, cn *mpNode
		if o.major == 1 {
			if len(pkn.Arr) < 2 {
				return nil, errors.New("short packet")
			}
			sn, cn = pkn.Arr[0], pkn.Arr[1]
		} else {
			if len(pkn.Arr) < 3 || pkn.Arr[0].Kind != mpBool {
				return nil, errors.New("bad packet / final flag")
			}
			final, sn, cn = pkn.Arr[0].B, pkn.Arr[1], pkn.Arr[2]
		}
		sig, err := binOf(sn, "signature", 64)
		if err != nil {
			return nil, err
		}
		ch, err := binOf(cn, "payload chunk", -1)
		if err != nil {
			return nil, err
		}
		if len(ch) > 1<<20 {
			return nil, errors.New("chunk larger than 1 MiB")
		}
		if o.major == 1 {
			final = len(ch) == 0
		} else if len(ch) == 0 && !(final && n == 0) {
			return nil, errors.New("empty chunk that is not the sole final chunk")
		}
		var sq [8]byte
		binary.BigEndian.PutUint64(sq[:], uint64(n))
		var hsh []byte
		if o.major == 1 {
			hsh = sha(hh, sq[:], ch)
		} else {
			fb := []byte{0}
			if final {
				fb[0] = 1
			}
			hsh = sha(hh, sq[:], fb, ch)
		}
		if !ed25519.Verify(pk, append([]byte("saltpack attached signature\x00"), hsh...), sig) {
			return nil, fmt.Errorf("packet %d: bad signature", n)
		}
		o.plaintext = append(o.plaintext, ch...)
		o.chunkLens = append(o.chunkLens, len(ch))
		done = final
	}
	if !done {
		return nil, errors.New("truncated: no final packet")
	}
	return o, nil
}

// ---------- signcryption ----------

type refScRcpt struct {
	boxPk  []byte // box recipient
	symKey []byte // symmetric recipient
	symID  []byte
}

type refSc struct {
	format        string
	major, minor  int
	mode          int
	signerSk      []byte // nil: anonymous
	ephSk         []byte
	payloadKey    []byte
	rcpts         []refScRcpt
	chunks        [][]byte
	extraHeader   bool
	extraRcpt     bool
	extraPacket   bool
	forgeSignerPk []byte
	// forging: reuse / replace signatures
	sigFor        func(n int, final bool, nonce *[24]byte, chunk []byte, hh []byte) []byte
	finalOverride map[int]bool
	indexOverride map[int]uint64
}

func (p *refSc) header() []byte {
	spk := make([]byte, 32)
	if p.signerSk != nil {
		spk = []byte(ed25519.PrivateKey(p.signerSk).Public().(ed25519.PublicKey))
	}
	if p.forgeSignerPk != nil {
		spk = p.forgeSignerPk
	}
	sbox := secretbox.Seal(nil, spk, n24("saltpack_sender_key_sbox"), k32(p.payloadKey))
	ephPk := pubOf(p.ephSk)
	var rl []*mpNode
	for i, r := range p.rcpts {
		nonce := idxNonce("saltpack_recipsb", uint64(i))
		var id, derived []byte
		if r.boxPk != nil {
			derived = boxZeros(p.ephSk, r.boxPk, n24("saltpack_derived_sboxkey"))
			id = hmac32([]byte("saltpack signcryption box key identifier"), derived, nonce[:])
		} else {
			derived = hmac32([]byte("saltpack signcryption derived symmetric key"), ephPk, r.symKey)
			id = r.symID
		}
		kb := secretbox.Seal(nil, p.payloadKey, nonce, k32(derived))
		pair := nArr(nBin(id), nBin(kb))
		if p.extraRcpt {
			pair.Arr = append(pair.Arr, nStr("x"))
		}
		rl = append(rl, pair)
	}
	h := nArr(nStr(p.format), nArr(nInt(int64(p.major)), nInt(int64(p.minor))), nInt(int64(p.mode)),
		nBin(ephPk), nBin(sbox), &mpNode{Kind: mpArr, Arr: rl})
	if p.extraHeader {
		h.Arr = append(h.Arr, nNil())
	}
	return mpEnc(h)
}

func (p *refSc) seal() []byte {
	hdr := p.header()
	hh := sha(hdr)
	out := mpEnc(nBin(hdr))
	for n, ch := range p.chunks {
		final := n == len(p.chunks)-1
		if f, ok := p.finalOverride[n]; ok {
			final = f
		}
		idx := uint64(n)
		if x, ok := p.indexOverride[n]; ok {
			idx = x
		}
		nonce := hashNonce(hh, final, idx)
		sig := make([]byte, 64)
		if p.sigFor != nil {
			sig = p.sigFor(n, final, nonce, ch, hh)
		} else if p.signerSk != nil {
			sig = ed25519.Sign(ed25519.PrivateKey(p.signerSk), scSigInput(hh, nonce, final, ch))
		}
		ct := secretbox.Seal(nil, append(append([]byte{}, sig...), ch...), nonce, k32(p.payloadKey))
		pk := nArr(nBin(ct), nBool(final))
		if p.extraPacket {
			pk.Arr = append(pk.Arr, nInt(1))
		}
		out = append(out, mpEnc(pk)...)
	}
	return out
}

func scSigInput(hh []byte, nonce *[24]byte, final bool, chunk []byte) []byte {
	fb := []byte{0}
	if final {
		fb[0] = 1
	}
	in := []byte("saltpack encrypted signature\x00")
	in = append(in, hh...)
	in = append(in, nonce[:]...)
	in = append(in, fb...)
	return append(in, sha(chunk)...)
}

// refHeaderOnly makes refOpenSc stop after the header (payload key, sender), as a forging
// insider does: it must not depend on the sender's packets following the specification
var refHeaderOnly bool

// refOpenSc opens a signcrypted message with a box secret key (sk) or a symmetric key (symKey, symID).
func refOpenSc(msg []byte, sk []byte, symKey, symID []byte) (*refOpened, error) {
	hdrBytes, h, rest, err := refParseHeader(msg, 6)
	if err != nil {
		return nil, err
	}
	o := &refOpened{mode: int(h.Arr[2].I), major: int(h.Arr[1].Arr[0].I), minor: int(h.Arr[1].Arr[1].I), rcptIndex: -1}
	if o.mode != 3 {
		return nil, errors.New("mode is not signcryption")
	}
	if o.major != 2 {
		return nil, errors.New("unknown major version")
	}
	hh := sha(hdrBytes)
	eph, err := binOf(h.Arr[3], "ephemeral public key", 32)
	if err != nil {
		return nil, err
	}
	sbox, err := binOf(h.Arr[4], "sender secretbox", 48)
	if err != nil {
		return nil, err
	}
	rl := h.Arr[5]
	if rl.Kind != mpArr || len(rl.Arr) == 0 {
		return nil, errors.New("recipients list missing or empty")
	}
	for i, pair := range rl.Arr {
		if pair.Kind != mpArr || len(pair.Arr) < 2 {
			return nil, errors.New("bad recipient pair")
		}
		id, err := binOf(pair.Arr[0], "recipient identifier", -1)
		if err != nil {
			return nil, err
		}
		o.rcptIDs = append(o.rcptIDs, id)
		kb, err := binOf(pair.Arr[1], "payload key box", 48)
		if err != nil {
			return nil, err
		}
		if o.payloadKey != nil {
			continue
		}
		nonce := idxNonce("saltpack_recipsb", uint64(i))
		var derived []byte
		if sk != nil {
			d := boxZeros(sk, eph, n24("saltpack_derived_sboxkey"))
			if bytes.Equal(hmac32([]byte("saltpack signcryption box key identifier"), d, nonce[:]), id) {
				derived = d
			}
		}
		if derived == nil && symKey != nil && bytes.Equal(id, symID) {
			derived = hmac32([]byte("saltpack signcryption derived symmetric key"), eph, symKey)
		}
		if derived == nil {
			continue
		}
		pkey, ok := secretbox.Open(nil, kb, nonce, k32(derived))
		if !ok {
			return nil, errors.New("payload key box does not open")
		}
		o.payloadKey, o.rcptIndex = pkey, i
	}
	if o.payloadKey == nil {
		return nil, errors.New("no recipient entry for this key")
	}
	spk, ok := secretbox.Open(nil, sbox, n24("saltpack_sender_key_sbox"), k32(o.payloadKey))
	if !ok || len(spk) != 32 {
		return nil, errors.New("sender secretbox does not open to 32 bytes")
	}
	if bytes.Equal(spk, make([]byte, 32)) {
		o.anon = true
	} else {
		o.senderPk = spk
	}
	if refHeaderOnly {
		return o, nil
	}
	done := false
	for n := 0; len(rest) > 0; n++ {
		if done {
			return nil, errors.New("data after the final packet")
		}
		pk, r2, err := mpParse(rest)
		if err != nil {
			return nil, fmt.Errorf("payload packet %d: %v", n, err)
		}
		if err := wantMinimal(rest[:len(rest)-len(r2)], pk); err != nil {
			return nil, fmt.Errorf("payload packet %d: %v", n, err)
		}
		rest = r2
		if pk.Kind != mpArr || len(pk.Arr) < 2 || pk.Arr[1].Kind != mpBool {
			return nil, errors.New("bad payload packet")
		}
		ct, err := binOf(pk.Arr[0], "signcrypted chunk", -1)
		if err != nil {
			return nil, err
		}
		final := pk.Arr[1].B
		nonce := hashNonce(hh, final, uint64(n))
		att, ok := secretbox.Open(nil, ct, nonce, k32(o.payloadKey))
		if !ok || len(att) < 64 {
			return nil, fmt.Errorf("packet %d does not open", n)
		}
		sig, ch := att[:64], att[64:]
		if len(ch) > 1<<20 {
			return nil, errors.New("chunk larger than 1 MiB")
		}
		if len(ch) == 0 && !(final && n == 0) {
			return nil, errors.New("empty chunk that is not the sole final chunk")
		}
		if o.anon {
			if !bytes.Equal(sig, make([]byte, 64)) {
				return nil, errors.New("anonymous sender with a non-zero signature")
			}
		} else if !ed25519.Verify(spk, scSigInput(hh, nonce, final, ch), sig) {
			return nil, fmt.Errorf("packet %d: bad signature", n)
		}
		o.plaintext = append(o.plaintext, ch...)
		o.chunkLens = append(o.chunkLens, len(ch))
		done = final
	}
	if !done {
		return nil, errors.New("truncated: no final packet")
	}
	return o, nil
}
