package main

import (
	"bytes"
	"fmt"
	"github.com/keybase/saltpack"
	"io"
	"strings"
)

func genC18(h *H) {
	thorough := h.tier == "thorough"
	// (2) faults at every offset
	for _, v := range []string{"1.0", "2.0"} {
		// signing: 16 bytes needed
		genSignRngFaults(h)
		// sealing with 2 recipients: 1 draw (4 bytes, maybe rejected draws) + 32 + 32
		for l := 0; l <= 72; l += 1 {
			s := h.randSealSpec(2, l%4)
			s.v = v
			c := sealCase(s, [][]byte{h.rng.Bytes(20)}, h.rng.Bytes(l), l%2 == 0)
			if l < 68 {
				c.A["expect"], c.A["why"] = "fail", fmt.Sprintf("the randomness source failed after %d bytes", l)
			}
			h.tag("rngfault:seal")
			h.Run(c)
		}
	}
	for l := 0; l <= 76; l++ {
		s := h.randScSpec(2, 1)
		c := scSealCase(s, [][]byte{h.rng.Bytes(20)}, h.rng.Bytes(l), l%2 == 0)
		if l < 64 {
			c.A["expect"], c.A["why"] = "fail", fmt.Sprintf("the randomness source failed after %d bytes", l)
		} else if l < 72 {
			delete(c.A, "bsk") // might or might not succeed (rejected draws); only compare with the model
			c.A["expect"], c.A["why"] = "any", ""
		}
		h.tag("rngfault:sc")
		h.Run(c)
	}
	// (2b) a transient fault at every single Read call of the randomness source
	for _, kind := range []string{"seal", "sc", "sign-att", "sign-det"} {
		for _, nr := range []int{1, 2, 3, 5} {
			if nr > 1 && (kind == "sign-att" || kind == "sign-det") {
				continue
			}
			for _, v := range []string{"1.0", "2.0"} {
				if kind == "sc" && v == "1.0" {
					continue
				}
				h.tag("rngfault-transient:" + kind)
				h.Run(Case{Op: "rng_transient", A: map[string]string{"kind": kind, "v": v, "n": fmt.Sprint(nr), "seed": hx(h.rng.Bytes(8)), "oneshot": fmt.Sprint(nr % 2)}})
				if nr >= 3 {
					h.tag("rngfault-transient-resample:" + kind)
					h.Run(Case{Op: "rng_transient", A: map[string]string{"kind": kind, "v": v, "n": fmt.Sprint(nr), "seed": hx(h.rng.Bytes(8)), "oneshot": fmt.Sprint(nr % 2), "reject": "1"}})
				}
			}
		}
	}
	// (1) freshness across repeated calls with identical arguments
	n := 60
	if thorough {
		n = 1000
	}
	h.Run(Case{Op: "fresh", A: map[string]string{"n": fmt.Sprint(n), "seed": hx(h.rng.Bytes(8))}})
	// a stream that is used again after Close (a late Write, a second Close, a retried Close): whatever it still emits
	// must be protected by THIS message's fresh secrets - two messages with identical inputs and different randomness
	// must not emit identical bytes after their first Close
	for _, kind := range []string{"enc1", "enc2", "sc"} {
		for _, ops := range []string{"W,C,W,C", "W,C,C", "C,W,C", "W,C,W,W,C"} {
			h.tag("late-use")
			h.Run(Case{Op: "late_use", A: map[string]string{"kind": kind, "ops": ops, "r1": hx(h.rng.Bytes(200)), "r2": hx(h.rng.Bytes(200))}})
		}
	}
}

func init() {
	// a transient failure of the randomness source at its k-th Read call, for every k a
	// fault-free run makes: the operation must fail (fail closed), never emit a message
	evaluators["rng_transient"] = evaluator{run: func(h *H, c Case) (fs []Failure) {
		var nr int
		fmt.Sscan(c.A["n"], &nr)
		r := &SplitMix{s: 99}
		for _, b := range unhx(c.A["seed"]) {
			r.s = r.s*131 + uint64(b)
		}
		oneshot := c.A["oneshot"] == "1"
		ssk, sig := r.Bytes(32), newSigSecret(r.Bytes(32))
		var rpk [][]byte
		for i := 0; i < nr; i++ {
			rpk = append(rpk, boxPk(r.Bytes(32)))
		}
		stream := r.Bytes(4096)
		if c.A["reject"] == "1" {
			// source values the bounded draw rejects (low = v*n mod 2^32 below 2^32 mod n), so that the
			// re-sampling reads exist and get their fault too
			copy(stream[0:4], []byte{0, 0, 0, 0})
			copy(stream[8:12], []byte{0, 0, 0, 0})
		}
		msg := []byte("fail closed")
		run := func() (out []byte, err error) {
			switch c.A["kind"] {
			case "seal":
				var rc []string
				for _, pk := range rpk {
					rc = append(rc, hx(pk)+":v")
				}
				out, _, err = implSeal(parseVersion(c.A["v"]), hx(ssk), strings.Join(rc, ","), [][]byte{msg}, stream, oneshot)
			case "sc":
				out, _, err = implScSeal(hx(sig), blist(rpk), "_", [][]byte{msg}, stream, oneshot)
			case "sign-att":
				out, _, err = implSign("att", parseVersion(c.A["v"]), sig, [][]byte{msg}, stream, oneshot)
			default:
				out, _, err = implSign("det", parseVersion(c.A["v"]), sig, [][]byte{msg}, stream, oneshot)
			}
			return
		}
		randFailAt = 0
		if _, err := run(); err != nil {
			return append(fs, Failure{Kind: "oracle", Key: "rng-transient-baseline-fails", Desc: err.Error()})
		}
		total := randCalls
		base, _ := run()
		defer func() { randFailAt, randShortAt = 0, 0 }()
		// a legal short read (fewer bytes than asked, nil error) at any single Read call must not change
		// anything: the same bytes of the source are consumed in the same order
		for k := 1; k <= total; k++ {
			randShortAt = k
			out, err := run()
			if err != nil || !bytes.Equal(out, base) {
				fs = append(fs, Failure{Kind: "oracle", Key: "rng-short-read-changes-output-" + c.A["kind"], Desc: fmt.Sprintf("%s with %d recipients: Read call %d of %d on the randomness source returned fewer bytes than asked (nil error); the operation gave err=%v and %s output than with full reads (secret material not taken from the source?)", c.A["kind"], nr, k, total, err, map[bool]string{true: "the same", false: "a DIFFERENT"}[bytes.Equal(out, base)])})
				break
			}
		}
		randShortAt = 0
		for k := 1; k <= total; k++ {
			randFailAt = k
			out, err := run()
			if err == nil {
				fs = append(fs, Failure{Kind: "oracle", Key: "rng-fault-swallowed-" + c.A["kind"], Desc: fmt.Sprintf("%s with %d recipients: Read call %d of %d on the randomness source failed (transiently), yet the operation succeeded and emitted %d bytes", c.A["kind"], nr, k, total, len(out))})
				break
			}
		}
		return
	}}
	evaluators["late_use"] = evaluator{run: func(h *H, c Case) (fs []Failure) {
		run := func(rng []byte) (tail []byte, err error) {
			var buf bytes.Buffer
			withRand(rng, func() {
				err = guard(func() error {
					rsk := boxSecretFromBytes(bytes.Repeat([]byte{5}, 32))
					rcpt := []saltpack.BoxPublicKey{boxPubFromBytes(rsk.GetPublicKey().ToKID(), false)}
					var w io.WriteCloser
					var e error
					switch c.A["kind"] {
					case "enc1":
						w, e = saltpack.NewEncryptStream(saltpack.Version1(), &buf, boxSecretFromBytes(bytes.Repeat([]byte{6}, 32)), rcpt)
					case "enc2":
						w, e = saltpack.NewEncryptStream(saltpack.Version2(), &buf, boxSecretFromBytes(bytes.Repeat([]byte{6}, 32)), rcpt)
					default:
						w, e = saltpack.NewSigncryptSealStream(&buf, &hRing{}, sigSecretFromBytes(newSigSecret(bytes.Repeat([]byte{3}, 32))), rcpt, nil)
					}
					if e != nil {
						return e
					}
					closed := -1
					for _, op := range strings.Split(c.A["ops"], ",") {
						if op == "W" {
							w.Write([]byte("a trailer that is written late"))
						} else {
							w.Close()
							if closed < 0 {
								closed = buf.Len()
							}
						}
					}
					if closed >= 0 {
						tail = append([]byte{}, buf.Bytes()[closed:]...)
					}
					return nil
				})
			})
			return
		}
		t1, e1 := run(unhx(c.A["r1"]))
		t2, e2 := run(unhx(c.A["r2"]))
		if e1 != nil || e2 != nil {
			return // a stream that refuses or panics on late use emits nothing unprotected
		}
		// the payload ciphertexts (the last byte string of every packet) of the late packets of the two messages
		lateCts := func(tail []byte) (out [][]byte) {
			objs, ok := splitObjects(tail)
			if !ok {
				return nil
			}
			for _, o := range objs {
				n, _, err := mpParse(o)
				if err != nil || n.Kind != mpArr {
					continue
				}
				for i := len(n.Arr) - 1; i >= 0; i-- {
					if n.Arr[i].Kind == mpBin && len(n.Arr[i].Bytes) > 16 {
						out = append(out, n.Arr[i].Bytes)
						break
					}
				}
			}
			return
		}
		c1, c2 := lateCts(t1), lateCts(t2)
		for i := range c1 {
			if i < len(c2) && bytes.Equal(c1[i], c2[i]) {
				fs = append(fs, Failure{Kind: "oracle", Key: "late-blocks-not-under-fresh-secrets", Desc: fmt.Sprintf("%s, operations %s: late packet %d carries the SAME %d-byte ciphertext in two messages made with different randomness: it is not protected by the message's fresh key", c.A["kind"], c.A["ops"], i, len(c1[i]))})
				break
			}
		}
		return
	}}
	evaluators["fresh"] = evaluator{run: func(h *H, c Case) (fs []Failure) {
		var n int
		fmt.Sscan(c.A["n"], &n)
		r := &SplitMix{s: 77}
		copySeed := unhx(c.A["seed"])
		for _, b := range copySeed {
			r.s = r.s*131 + uint64(b)
		}
		rsk, ssk, sig := r.Bytes(32), r.Bytes(32), newSigSecret(r.Bytes(32))
		msg := []byte("the same message every time")
		seenEph, seenKey, seenNonce := map[string]int{}, map[string]int{}, map[string]int{}
		stream := r.Bytes(n * 100)
		for i := 0; i < n; i++ {
			seg := stream[i*100 : i*100+100]
			// encryption
			s := sealSpec{v: []string{"1.0", "2.0"}[i%2], sender: ssk, rsk: [][]byte{rsk}, hide: []bool{false}}
			out, left, err := implSeal(parseVersion(s.v), s.senderStr(), s.rcpts(), [][]byte{msg}, seg, true)
			if err != nil {
				return append(fs, Failure{Kind: "oracle", Key: "fresh-seal-fails", Desc: err.Error()})
			}
			o, err := refOpenEnc(out, rsk)
			if err != nil {
				return append(fs, Failure{Kind: "oracle", Key: "fresh-seal-unreadable", Desc: err.Error()})
			}
			// one recipient: no shuffle draw; ephemeral secret = seg[0:32], payload key = seg[32:64]
			if left != 36 || !bytes.Equal(o.payloadKey, seg[32:64]) || !bytes.Equal(o.ephPk, boxPk(seg[0:32])) {
				fs = append(fs, Failure{Kind: "oracle", Key: "secrets-not-from-randomness-source", Desc: fmt.Sprintf("call %d: ephemeral key / payload key are not the bytes drawn from the randomness source (left=%d)", i, left)})
			}
			seenEph[hx(o.ephPk)]++
			seenKey[hx(o.payloadKey)]++
			// signcryption
			out2, _, err := implScSeal(hx(sig), blist([][]byte{boxPk(rsk)}), "_", [][]byte{msg}, seg, true)
			if err != nil {
				return append(fs, Failure{Kind: "oracle", Key: "fresh-sc-fails", Desc: err.Error()})
			}
			o2, err := refOpenSc(out2, rsk, nil, nil)
			if err != nil {
				return append(fs, Failure{Kind: "oracle", Key: "fresh-sc-unreadable", Desc: err.Error()})
			}
			if !bytes.Equal(o2.payloadKey, seg[32:64]) {
				fs = append(fs, Failure{Kind: "oracle", Key: "secrets-not-from-randomness-source", Desc: fmt.Sprintf("call %d: signcryption payload key is not the bytes drawn", i)})
			}
			// signatures
			for _, mode := range []string{"att", "det"} {
				out3, _, err := implSign(mode, parseVersion(s.v), sig, [][]byte{msg}, seg, true)
				if err != nil {
					return append(fs, Failure{Kind: "oracle", Key: "fresh-sign-fails", Desc: err.Error()})
				}
				md := 1
				if mode == "det" {
					md = 2
				}
				o3, err := refVerify(out3, md, msg)
				if err != nil {
					return append(fs, Failure{Kind: "oracle", Key: "fresh-sign-unreadable", Desc: err.Error()})
				}
				if !bytes.Equal(o3.sigNonce, seg[:len(o3.sigNonce)]) {
					fs = append(fs, Failure{Kind: "oracle", Key: "secrets-not-from-randomness-source", Desc: fmt.Sprintf("call %d: signature header nonce is not the bytes drawn", i)})
				}
				if mode == "att" {
					seenNonce[hx(o3.sigNonce)]++
				}
			}
			if len(fs) > 3 {
				return
			}
		}
		if len(seenEph) != n || len(seenKey) != n || len(seenNonce) != n {
			fs = append(fs, Failure{Kind: "oracle", Key: "secret-reused-across-messages", Desc: fmt.Sprintf("%d calls with identical arguments: %d distinct ephemeral keys, %d distinct payload keys, %d distinct signature nonces", n, len(seenEph), len(seenKey), len(seenNonce))})
		}
		return
	}}
}
