package main

import (
	"bytes"
	"encoding/binary"
	"fmt"
	"strconv"
	"strings"

	"github.com/keybase/saltpack"
)

func be32s(vs ...uint32) []byte {
	var out []byte
	for _, v := range vs {
		var b [4]byte
		binary.BigEndian.PutUint32(b[:], v)
		out = append(out, b[:]...)
	}
	return out
}

// reference bounded draw written from the property (accept iff low >= 2^32 mod n)
func refUint32n(n uint32, stream []byte) (uint32, int, bool) {
	thresh := uint32((uint64(1) << 32) % uint64(n))
	for {
		if len(stream) < 4 {
			return 0, 0, false
		}
		v := binary.BigEndian.Uint32(stream)
		stream = stream[4:]
		prod := uint64(v) * uint64(n)
		if uint32(prod) >= thresh {
			return uint32(prod >> 32), len(stream), true
		}
	}
}

// smallest accepted source value whose output is k (the bijection of C19_lemire_uniform_onto, t = 0)
func firstPreimage(n uint32, k uint32) uint32 {
	thresh := (uint64(1) << 32) % uint64(n)
	x := uint64(k)<<32 + thresh
	return uint32((x + uint64(n) - 1) / uint64(n))
}

func intsStr(l []int) string {
	if len(l) == 0 {
		return "-"
	}
	s := make([]string, len(l))
	for i, v := range l {
		s[i] = strconv.Itoa(v)
	}
	return strings.Join(s, ",")
}

// refShuffle: the arrangement Fisher-Yates produces from the draws of the stream (reference, written
// from the property): position p of the result holds the caller's element refShuffle[p]
func refShuffle(n int, stream []byte) ([]int, bool) {
	arr := make([]int, n)
	for i := range arr {
		arr[i] = i
	}
	for i := n - 1; i > 0; i-- {
		j, rest, ok := refUint32n(uint32(i+1), stream)
		if !ok {
			return nil, false
		}
		stream = stream[len(stream)-rest:]
		arr[i], arr[j] = arr[j], arr[i]
	}
	return arr, true
}

// shuffleOrderFailure compares the header position of every recipient (found with the reference
// receiver) with the reference shuffle of the caller's order under the pinned randomness
func shuffleOrderFailure(key string, rng []byte, pos []int) *Failure {
	want, ok := refShuffle(len(pos), rng)
	if !ok {
		return nil
	}
	for p, ci := range want {
		if pos[ci] != p {
			return &Failure{Kind: "oracle", Key: key, Desc: fmt.Sprintf("recipient order in the header is not the Fisher-Yates arrangement of the caller's order under the drawn randomness: caller index %d sits at header position %d, reference puts it at %d (reference arrangement %v)", ci, pos[ci], p, want)}
		}
	}
	return nil
}

func implShuffle(n int, stream []byte) (perm []int, rest int, err error) {
	perm = make([]int, n)
	for i := range perm {
		perm[i] = i
	}
	r := bytes.NewReader(stream)
	err = saltpack.VerifCsprngShuffle(r, n, func(i, j int) { perm[i], perm[j] = perm[j], perm[i] })
	return perm, r.Len(), err
}

func init() {
	evaluators["uint32n"] = evaluator{run: func(h *H, c Case) (fs []Failure) {
		n64, _ := strconv.ParseUint(c.A["n"], 10, 32)
		n := uint32(n64)
		stream := unhx(c.A["stream"])
		r := bytes.NewReader(stream)
		k, err := saltpack.VerifCsprngUint32n(r, n)
		got := "err"
		if err == nil {
			got = fmt.Sprintf("%d %d", k, r.Len())
		}
		m := strings.Join(h.rn.Call("uint32n", c.A["n"], hx(stream)), " ")
		if m != got {
			fs = append(fs, Failure{Kind: "correspondence", Key: "uint32n", Desc: fmt.Sprintf("model %q impl %q", m, got)})
		}
		rk, rrest, ok := refUint32n(n, stream)
		want := "err"
		if ok {
			want = fmt.Sprintf("%d %d", rk, rrest)
		}
		if want != got {
			fs = append(fs, Failure{Kind: "oracle", Key: "uint32n-not-lemire-uniform", Desc: fmt.Sprintf("n=%d stream=%x: impl %q, unbiased reference %q", n, stream, got, want)})
		}
		return
	}}
	evaluators["shuffle"] = evaluator{run: func(h *H, c Case) (fs []Failure) {
		n, _ := strconv.Atoi(c.A["n"])
		stream := unhx(c.A["stream"])
		perm, rest, err := implShuffle(n, stream)
		got := "err"
		if err == nil {
			got = intsStr(perm) + " " + strconv.Itoa(rest)
		}
		m := strings.Join(h.rn.Call("shuffle", c.A["n"], hx(stream)), " ")
		if m != got {
			fs = append(fs, Failure{Kind: "correspondence", Key: "shuffle", Desc: fmt.Sprintf("model %q impl %q", m, got)})
		}
		return
	}, trivial: func(c Case) bool { return c.A["n"] == "0" || c.A["n"] == "1" }}
	// every draw sequence for n items: each permutation exactly once, and equal to the model's Fisher-Yates
	evaluators["shuffle_all"] = evaluator{run: func(h *H, c Case) (fs []Failure) {
		n, _ := strconv.Atoi(c.A["n"])
		seen := map[string]int{}
		total := 0
		var rec func(i int, js []int)
		rec = func(i int, js []int) {
			if i == 0 {
				var stream []byte
				for idx, j := range js {
					stream = append(stream, be32s(firstPreimage(uint32(n-idx), uint32(j)))...)
				}
				perm, rest, err := implShuffle(n, stream)
				if err != nil || rest != 0 {
					fs = append(fs, Failure{Kind: "oracle", Key: "shuffle-draws", Desc: fmt.Sprintf("n=%d draws %v: err=%v rest=%d", n, js, err, rest)})
					return
				}
				total++
				seen[intsStr(perm)]++
				m := strings.Join(h.rn.Call("fisher_yates", strconv.Itoa(n), intsStr(js)), " ")
				if m != intsStr(perm) {
					fs = append(fs, Failure{Kind: "correspondence", Key: "fisher_yates", Desc: fmt.Sprintf("n=%d draws %v: model %q impl %q", n, js, m, intsStr(perm))})
				}
				return
			}
			for j := 0; j <= i; j++ {
				rec(i-1, append(append([]int{}, js...), j))
			}
		}
		rec(n-1, nil)
		fact := 1
		for i := 2; i <= n; i++ {
			fact *= i
		}
		if total != fact || len(seen) != fact {
			fs = append(fs, Failure{Kind: "oracle", Key: "shuffle-not-bijective", Desc: fmt.Sprintf("n=%d: %d draw sequences gave %d distinct arrangements, want %d each exactly once", n, total, len(seen), fact)})
		}
		if len(fs) > 3 {
			fs = fs[:3]
		}
		return
	}, trivial: func(c Case) bool { return c.A["n"] == "0" || c.A["n"] == "1" }}

	campaigns["C19"] = campaign{
		rule: "cases: sealed/signcrypted messages with random visibility patterns of 2..5 recipients checked for identities on the wire; (n, source byte stream) for the bounded draw and the shuffle (hooks VerifCsprngUint32n / VerifCsprngShuffle); boundary source values are constructed so that low = v*n mod 2^32 falls on thresh-1, thresh, n-1, n, 0 and 2^32-1 neighbourhoods for n in 1..64, powers of two +-1, and n near 2^31 and 2^32-1; random streams with truncations (source failure); shuffle_all enumerates every draw sequence for n<=6 (7 in thorough). Distinct by (op,args) hash; trivial: shuffles of 0 or 1 items.",
		gen:  genC19,
	}
}

func genC19(h *H) {
	thorough := h.tier == "thorough"
	// identity hiding on the wire: sealed and signcrypted messages with every visibility pattern of
	// 2..5 recipients (the seal / sc_seal evaluators check that the sender key and hidden recipients'
	// keys are absent from the bytes and each visible recipient is named exactly once)
	nw := 40
	if thorough {
		nw = 600
	}
	for i := 0; i < nw; i++ {
		nr := 2 + h.rng.Intn(4)
		s := h.randSealSpec(nr, h.rng.Intn(1<<uint(nr)))
		h.tag("wire-identities:seal")
		h.Run(sealCase(s, [][]byte{h.rng.Bytes(h.rng.Intn(60))}, sealRng(h.rng, nr), i%2 == 0))
		if i%2 == 0 {
			sc := h.randScSpec(1+h.rng.Intn(3), h.rng.Intn(3))
			h.tag("wire-identities:sc")
			h.Run(scSealCase(sc, [][]byte{h.rng.Bytes(h.rng.Intn(60))}, sealRng(h.rng, 6), true))
		}
	}
	genScColliding(h)
	ns := []uint32{}
	for n := uint32(1); n <= 64; n++ {
		ns = append(ns, n)
	}
	for s := uint(7); s <= 31; s++ {
		ns = append(ns, 1<<s-1, 1<<s, 1<<s+1)
	}
	ns = append(ns, 1<<31+12345, 3000000000, 4294967295, 4294967294, 1000003, 65537*3)
	for _, n := range ns {
		thresh := uint32((uint64(1) << 32) % uint64(n))
		// candidate source values around the decision boundaries
		var vs []uint32
		vs = append(vs, 0, 1, 2, 0xffffffff, 0xfffffffe, 0x80000000, 0x7fffffff)
		for k := uint32(0); k < 4 && k < n; k++ {
			p := firstPreimage(n, k)
			vs = append(vs, p, p-1, p+1)
		}
		if n > 4 {
			p := firstPreimage(n, n-1)
			vs = append(vs, p, p-1, p+1)
		}
		if n%2 == 1 && n > 1 {
			// v with low exactly at the boundaries: v = low * n^-1 mod 2^32
			inv := uint32(1)
			for i := 0; i < 6; i++ {
				inv *= 2 - n*inv
			}
			for _, low := range []uint32{thresh - 1, thresh, thresh + 1, n - 1, n, 0} {
				vs = append(vs, low*inv)
			}
		}
		for _, v := range vs {
			tail := be32s(uint32(h.rng.Next()), 0xffffffff, uint32(h.rng.Next()))
			stream := append(be32s(v), tail...)
			h.Run(Case{Op: "uint32n", A: map[string]string{"n": strconv.FormatUint(uint64(n), 10), "stream": hx(stream)}})
			// source failing right after a rejected draw / mid-word
			h.Run(Case{Op: "uint32n", A: map[string]string{"n": strconv.FormatUint(uint64(n), 10), "stream": hx(stream[:4])}})
			h.Run(Case{Op: "uint32n", A: map[string]string{"n": strconv.FormatUint(uint64(n), 10), "stream": hx(stream[:3+h.rng.Intn(3)])}})
		}
		reps := 8
		if thorough {
			reps = 200
		}
		for i := 0; i < reps; i++ {
			h.Run(Case{Op: "uint32n", A: map[string]string{"n": strconv.FormatUint(uint64(n), 10), "stream": hx(h.rng.Bytes(16))}})
		}
	}
	// shuffles with random streams (incl. too-short streams: source failure mid-shuffle)
	reps := 400
	if thorough {
		reps = 8000
	}
	for i := 0; i < reps; i++ {
		n := h.rng.Intn(12)
		if i%50 == 0 {
			n = 40 + h.rng.Intn(200)
		}
		l := 4*n + 8 - h.rng.Intn(9)
		if l < 0 {
			l = 0
		}
		if h.rng.Intn(10) == 0 {
			l = h.rng.Intn(4*n + 1)
		}
		stream := h.rng.Bytes(l)
		if h.rng.Intn(3) == 0 && len(stream) >= 4 {
			copy(stream, be32s(uint32(h.rng.Intn(3)))) // small values are the ones rejected
		}
		h.Run(Case{Op: "shuffle", A: map[string]string{"n": strconv.Itoa(n), "stream": hx(stream)}})
	}
	maxN := 6
	if thorough {
		maxN = 8
	}
	for n := 1; n <= maxN; n++ {
		h.Run(Case{Op: "shuffle_all", A: map[string]string{"n": strconv.Itoa(n)}})
	}
	h.res.ExhNote = fmt.Sprintf("shuffle_all enumerates all draw sequences for every n <= %d", maxN)
}
