package main

import (
	"io"

	"github.com/keybase/saltpack/encoding/basex"
)

func newBasexDecoder(enc string, r io.Reader) io.Reader {
	return basex.NewDecoder(encByName(enc).enc, r)
}
