package main

import (
	"strconv"
	"strings"
)

type scSpec struct {
	signer []byte // 64-byte ed25519 secret; nil = anonymous
	bsk    [][]byte
	symk   [][]byte
	symid  [][]byte
}

func (s scSpec) signerStr() string {
	if s.signer == nil {
		return "anon"
	}
	return hx(s.signer)
}
func (s scSpec) boxes() string {
	var pks [][]byte
	for _, k := range s.bsk {
		pks = append(pks, boxPk(k))
	}
	return blist(pks)
}
func (s scSpec) syms() string {
	if len(s.symk) == 0 {
		return "_"
	}
	var it []string
	for i := range s.symk {
		it = append(it, hx(s.symk[i])+":"+hx(s.symid[i]))
	}
	return strings.Join(it, ",")
}

func (h *H) randScSpec(nb, ns int) scSpec {
	var s scSpec
	if h.rng.Intn(3) != 0 {
		s.signer = h.randSigKey()
	}
	for i := 0; i < nb; i++ {
		s.bsk = append(s.bsk, h.randBoxSk())
	}
	for i := 0; i < ns; i++ {
		s.symk = append(s.symk, h.rng.Bytes(32))
		s.symid = append(s.symid, h.rng.Bytes(8+h.rng.Intn(40)))
	}
	return s
}

func scSealCase(s scSpec, pieces [][]byte, rng []byte, oneshot bool) Case {
	return Case{Op: "sc_seal", A: map[string]string{"signer": s.signerStr(), "boxes": s.boxes(), "bsk": blist(s.bsk), "syms": s.syms(),
		"pieces": blist(pieces), "rng": hx(rng), "oneshot": b01(oneshot)}}
}

func genScColliding(h *H) {
	// recipient lists with colliding identifiers: a symmetric identifier equal to a box recipient's key
	// identifier, or two equal identifiers — refused, or at least the box recipient stays unnamed
	for i := 0; i < 6; i++ {
		s := h.randScSpec(1+h.rng.Intn(2), 1+h.rng.Intn(2))
		why := "a symmetric-key identifier equals a box recipient's public key"
		switch i % 3 {
		case 0:
			s.symid[0] = boxPk(s.bsk[len(s.bsk)-1])
		case 1:
			s.symid[len(s.symid)-1] = boxPk(s.bsk[0])
			if i == 4 {
				s.signer = nil
			}
		default:
			s.symk = append(s.symk, h.rng.Bytes(32))
			s.symid = append(s.symid, s.symid[0])
			why = "two symmetric recipients share an identifier"
		}
		c := scSealCase(s, [][]byte{h.rng.Bytes(20)}, sealRng(h.rng, len(s.bsk)+len(s.symk)), i%2 == 0)
		c.A["expect"], c.A["why"] = "refuse-or-hide", why
		h.tag("rcpts:colliding-identifiers")
		h.Run(c)
	}
}

func genScRoundtrip(h *H) {
	thorough := h.tier == "thorough"
	cnt := 0
	genScColliding(h)
	for nb := 0; nb <= 3; nb++ {
		for ns := 0; ns <= 3; ns++ {
			if nb+ns == 0 {
				continue
			}
			for _, anon := range []bool{false, true} {
				s := h.randScSpec(nb, ns)
				if anon {
					s.signer = nil
				} else if s.signer == nil {
					s.signer = h.randSigKey()
				}
				msg := h.content(h.pickLen(cnt % 14))
				cnt++
				h.tag("rcpts:" + strconv.Itoa(nb) + "box+" + strconv.Itoa(ns) + "sym")
				h.Run(scSealCase(s, [][]byte{msg}, sealRng(h.rng, nb+ns), true))
				h.Run(scSealCase(s, splitPieces(h.rng, msg), sealRng(h.rng, nb+ns), false))
			}
		}
	}
	n := 20
	if thorough {
		n = 500
	}
	for i := 0; i < n; i++ {
		nb, ns := h.rng.Intn(5), h.rng.Intn(5)
		if nb+ns == 0 {
			nb = 1
		}
		if thorough && i%25 == 0 {
			nb = 10 + h.rng.Intn(20)
		}
		s := h.randScSpec(nb, ns)
		h.Run(scSealCase(s, [][]byte{h.content(h.pickLen(i % 20))}, sealRng(h.rng, nb+ns), i%2 == 0))
	}
	ks := []int{1}
	if thorough {
		ks = []int{1, 2, 3}
	}
	if !thorough && !h.specOracles {
		s := h.randScSpec(1, 0)
		h.tag("len:two-blocks-plus-one")
		h.Run(scSealCase(s, [][]byte{h.rng.Bytes(2*mib + 1)}, sealRng(h.rng, 1), true))
	}
	for _, k := range ks {
		for _, d := range []int{-1, 0, 1} {
			s := h.randScSpec(1, 1)
			h.tag("len:chunk-boundary")
			msg := h.rng.Bytes(k*mib + d)
			h.Run(scSealCase(s, [][]byte{msg}, sealRng(h.rng, 2), true))
			pats := []int{k + d + 2}
			if thorough {
				pats = []int{0, 1, 2, 3, 4}
			}
			if h.specOracles && !thorough {
				pats = pats[:0]
			}
			for _, pt := range pats {
				h.tag("len:chunk-boundary-streamed")
				h.Run(scSealCase(s, bigPieces(pt, msg), sealRng(h.rng, 2), false))
			}
		}
	}
}

func init() {
	campaigns["C03"] = campaign{
		rule: "cases: (named/anonymous signer, 0..4 box recipients and 0..4 symmetric-key recipients in every small mix (up to 30 in thorough), plaintext split into Write pieces or one-shot, pinned randomness); lengths 0,1,2,31..33,255..257,1000, random, k MiB-1/k MiB/k MiB+1; each case compares emitted bytes and randomness consumption with the extracted model, then opens as every box recipient, as every symmetric recipient with a single-identifier resolver and with a random-subset resolver, in all-at-once and streaming form, and as a holder of no key. Distinct by (op,args) hash.",
		gen:  genScRoundtrip,
	}
}
