package main

import (
	"bytes"
	"fmt"
	"io"
	"strconv"
	"strings"

	"github.com/keybase/saltpack"
	"github.com/keybase/saltpack/encoding/basex"
)

// faultWriter fails at its k-th Write call (0-based): once (transient) or from then on (sticky)
type faultWriter struct {
	buf    bytes.Buffer
	calls  int
	failAt int
	sticky bool
}

func (w *faultWriter) Write(p []byte) (int, error) {
	i := w.calls
	w.calls++
	if w.failAt >= 0 && (i == w.failAt || (w.sticky && i > w.failAt)) {
		return 0, errInjected
	}
	return w.buf.Write(p)
}

// an encoder stream kind: constructor + pieces; returns the index of the first
// operation (0 = constructor, i = i-th Write, len+1 = Close) that reported an error, or -1
// lastCloseNil: whether the Close call of the latest runEncoder returned nil
var lastCloseNil bool

func runEncoder(kind string, w io.Writer, pieces [][]byte, rng []byte) (firstErr int, err error) {
	firstErr = -1
	lastCloseNil = false
	withRand(rng, func() {
		err = guard(func() error {
			var wc io.WriteCloser
			var e error
			sigKey := sigSecretFromBytes(newSigSecret(bytes.Repeat([]byte{3}, 32)))
			rsk := boxSecretFromBytes(bytes.Repeat([]byte{5}, 32))
			rcpt := []saltpack.BoxPublicKey{boxPubFromBytes(rsk.GetPublicKey().ToKID(), false)}
			ssk := boxSecretFromBytes(bytes.Repeat([]byte{6}, 32))
			switch kind {
			case "sign1":
				wc, e = saltpack.NewSignStream(saltpack.Version1(), w, sigKey)
			case "sign2":
				wc, e = saltpack.NewSignStream(saltpack.Version2(), w, sigKey)
			case "signdet":
				wc, e = saltpack.NewSignDetachedStream(saltpack.Version2(), w, sigKey)
			case "enc1":
				wc, e = saltpack.NewEncryptStream(saltpack.Version1(), w, ssk, rcpt)
			case "enc2":
				wc, e = saltpack.NewEncryptStream(saltpack.Version2(), w, ssk, rcpt)
			case "sc":
				wc, e = saltpack.NewSigncryptSealStream(w, &hRing{}, sigKey, rcpt, nil)
			case "sign-armor":
				wc, e = saltpack.NewSignArmor62Stream(saltpack.Version2(), w, sigKey, "KB")
			case "signdet-armor":
				wc, e = saltpack.NewSignDetachedArmor62Stream(saltpack.Version1(), w, sigKey, "")
			case "enc-armor":
				wc, e = saltpack.NewEncryptArmor62Stream(saltpack.Version2(), w, ssk, rcpt, "KB")
			case "sc-armor":
				wc, e = saltpack.NewSigncryptArmor62SealStream(w, &hRing{}, sigKey, rcpt, nil, "")
			case "armor":
				wc, e = saltpack.NewArmor62EncoderStream(w, saltpack.MessageTypeEncryption, "KB")
			case "basex":
				wc = basex.NewEncoder(basex.Base62StdEncoding, w)
			}
			if e != nil {
				firstErr = 0
				return nil
			}
			for i, p := range pieces {
				if _, e := wc.Write(p); e != nil && firstErr < 0 {
					firstErr = i + 1
				}
			}
			e = wc.Close()
			lastCloseNil = e == nil
			if e != nil && firstErr < 0 {
				firstErr = len(pieces) + 1
			}
			return nil
		})
	})
	return
}

var encoderKinds = []string{"sign1", "sign2", "signdet", "enc1", "enc2", "sc", "sign-armor", "signdet-armor", "enc-armor", "sc-armor", "armor", "basex"}

// faultReader returns an injected error at its k-th Read: alone (transient or sticky) or together with data (sticky)
type faultReader struct {
	data    []byte
	chunk   int
	segs    []int // when set: the sizes of successive deliveries (e.g. the Write calls of the encoder that produced the data)
	calls   int
	failAt  int
	mode    string // "alone-transient", "alone-sticky", "with-data"
	tripped bool
}

func (r *faultReader) Read(p []byte) (int, error) {
	i := r.calls
	r.calls++
	if len(r.segs) > 0 {
		r.chunk = r.segs[0]
		if r.chunk > len(p) {
			r.segs[0] -= len(p)
		} else {
			r.segs = r.segs[1:]
			if len(r.segs) == 0 {
				r.segs = []int{1 << 30}
			}
		}
	}
	if r.tripped && r.mode != "alone-transient" {
		return 0, errInjected
	}
	if i == r.failAt {
		r.tripped = true
		if r.mode == "with-data" && len(r.data) > 0 {
			n := r.chunk
			if n > len(p) {
				n = len(p)
			}
			if n > len(r.data) {
				n = len(r.data)
			}
			copy(p, r.data[:n])
			r.data = r.data[n:]
			return n, errInjected
		}
		return 0, errInjected
	}
	if len(r.data) == 0 {
		return 0, io.EOF
	}
	n := r.chunk
	if n > len(p) {
		n = len(p)
	}
	if n > len(r.data) {
		n = len(r.data)
	}
	copy(p, r.data[:n])
	r.data = r.data[n:]
	return n, nil
}

func init() {
	// every underlying Write of an encoder stream fails in turn
	evaluators["wfault"] = evaluator{run: func(h *H, c Case) (fs []Failure) {
		kind := c.A["kind"]
		pieces := unblist(c.A["pieces"])
		rng := unhx(c.A["rng"])
		free := &faultWriter{failAt: -1}
		fe, err := runEncoder(kind, free, pieces, rng)
		if err != nil || fe >= 0 {
			return append(fs, Failure{Kind: "oracle", Key: "wfault-baseline-fails", Desc: fmt.Sprintf("fault-free run of %s failed: op %d, %v", kind, fe, err)})
		}
		n := free.calls
		h.tag(fmt.Sprintf("wfault-calls:%s", kind))
		swallowed, closeNil := 0, 0
		// every call position when the run makes at most 4000 underlying writes; beyond that (MiB-size armored
		// messages: one write per word) the first and last 600 positions and 600 evenly spaced ones
		var ks []int
		if n <= 4000 {
			for k := 0; k < n; k++ {
				ks = append(ks, k)
			}
		} else {
			seen := map[int]bool{}
			add := func(k int) {
				if k >= 0 && k < n && !seen[k] {
					seen[k] = true
					ks = append(ks, k)
				}
			}
			for k := 0; k < 600; k++ {
				add(k)
				add(n - 1 - k)
				add(k * (n / 600))
			}
		}
		for _, k := range ks {
			for _, sticky := range []bool{false, true} {
				w := &faultWriter{failAt: k, sticky: sticky}
				fe, err := runEncoder(kind, w, pieces, rng)
				if err != nil {
					fs = append(fs, Failure{Kind: "oracle", Key: "wfault-panic", Desc: fmt.Sprintf("%s with a write fault at call %d: %v", kind, k, clip(err.Error(), 150))})
					return
				}
				if fe < 0 {
					swallowed++
					if len(fs) < 2 {
						fs = append(fs, Failure{Kind: "oracle", Key: "write-fault-swallowed-" + kind, Desc: fmt.Sprintf("%s: underlying Write call %d of %d failed (sticky=%v) but the constructor, every Write and Close reported success", kind, k, n, sticky)})
					}
				} else if lastCloseNil && w.calls > k && !bytes.Equal(w.buf.Bytes(), free.buf.Bytes()) && closeNil < 2 {
					// the caller went on after the error (as the fault-free run does) and Close reported success:
					// then the writer must hold the complete message
					closeNil++
					fs = append(fs, Failure{Kind: "oracle", Key: "close-reports-success-for-incomplete-message-" + kind, Desc: fmt.Sprintf("%s: underlying Write call %d of %d failed once (sticky=%v), operation %d reported the error, the caller went on, and Close returned nil although the writer holds %d bytes that are not the complete message (%d bytes)", kind, k, n, sticky, fe, w.buf.Len(), free.buf.Len())})
				}
			}
		}
		h.res.Distribution["wfault-injections"] += 2 * len(ks)
		return
	}}

	// every underlying Read of a decoder stream returns an injected error in turn
	evaluators["rfault"] = evaluator{run: func(h *H, c Case) (fs []Failure) {
		stack := c.A["stack"]
		input := unhx(c.A["input"])
		chunk, _ := strconv.Atoi(c.A["chunk"])
		var segs []int
		if c.A["segs"] != "" {
			for _, f := range strings.Split(c.A["segs"], ",") {
				n, _ := strconv.Atoi(f)
				if n > 0 {
					segs = append(segs, n)
				}
			}
		}
		cp := func() []int { return append([]int{}, segs...) }
		free := &faultReader{data: append([]byte{}, input...), chunk: chunk, segs: cp(), failAt: -1}
		base := decodeStack(stack, c, free, 512)
		if !base.ok {
			return append(fs, Failure{Kind: "oracle", Key: "rfault-baseline-fails", Desc: fmt.Sprintf("fault-free run of %s failed: %s", stack, base.errClass)})
		}
		n := free.calls
		for k := 0; k < n; k++ {
			for _, mode := range []string{"alone-transient", "alone-sticky", "with-data"} {
				r := &faultReader{data: append([]byte{}, input...), chunk: chunk, segs: cp(), failAt: k, mode: mode}
				o := decodeStack(stack, c, r, []int{1, 43, 512}[k%3])
				if strings.HasPrefix(o.errClass, "PANIC") {
					fs = append(fs, Failure{Kind: "oracle", Key: "rfault-panic", Desc: o.errClass})
					return
				}
				if o.ok {
					// a transient fault delivered alone before any byte may be retried by a layer; anything else must surface
					fs = append(fs, Failure{Kind: "oracle", Key: "read-fault-swallowed-" + stack, Desc: fmt.Sprintf("%s: underlying Read call %d of %d returned an error (%s) but the stream ended cleanly after %d bytes", stack, k, n, mode, len(o.out))})
					if len(fs) > 2 {
						return
					}
				} else if !bytes.HasPrefix(base.out, o.out) {
					fs = append(fs, Failure{Kind: "oracle", Key: "read-fault-releases-garbage-" + stack, Desc: fmt.Sprintf("%s: after a read fault at call %d the released bytes are not a prefix of the genuine output", stack, k)})
					return
				}
			}
		}
		h.res.Distribution["rfault-injections"] += 3 * n
		return
	}}
}

func genFaults(h *H) {
	thorough := h.tier == "thorough"
	lens := []int{0, 1, 40, 700, 5000}
	if thorough {
		lens = []int{0, 1, 15, 40, 700, 5000, mib + 10}
	}
	for _, kind := range encoderKinds {
		for _, l := range lens {
			msg := h.rng.Bytes(l)
			pieces := [][]byte{msg}
			if l > 1 {
				pieces = splitPieces(h.rng, msg)
			}
			h.Run(Case{Op: "wfault", A: map[string]string{"kind": kind, "pieces": blist(pieces), "rng": hx(sealRng(h.rng, 1))}})
		}
	}
	rounds := 1
	if thorough {
		rounds = 6
	}
	for r := 0; r < rounds; r++ {
		for _, p := range h.producers() {
			stackBin := map[string]string{"enc": "open", "sc": "sc-open", "att": "verify", "det": ""}[p.name]
			a := map[string]string{"keys": keysOf(p), "signers": signersOf(p), "ring": signersOf(p)}
			withA := func(extra map[string]string) map[string]string {
				o := map[string]string{}
				for k, v := range a {
					o[k] = v
				}
				for k, v := range extra {
					o[k] = v
				}
				return o
			}
			chunk := strconv.Itoa([]int{7, 64, 4096}[h.rng.Intn(3)])
			if stackBin != "" {
				h.Run(Case{Op: "rfault", A: withA(map[string]string{"stack": stackBin, "input": hx(p.wire), "chunk": chunk})})
			}
			at := map[string]saltpack.MessageType{"enc": saltpack.MessageTypeEncryption, "sc": saltpack.MessageTypeEncryption,
				"att": saltpack.MessageTypeAttachedSignature, "det": saltpack.MessageTypeDetachedSignature}[p.name]
			chk := map[string]string{"enc": "0", "sc": "0", "att": "1", "det": "2"}[p.name]
			txt, _ := saltpack.Armor62Seal(p.wire, at, "KB")
			// re-flowed text so that some underlying reads are whitespace-only slices
			txt = strings.Replace(txt, " ", "   \n\n  ", 12)
			h.Run(Case{Op: "rfault", A: withA(map[string]string{"stack": "dearmor", "chk": chk, "input": hx([]byte(txt)), "chunk": "5"})})
			if stackBin != "" {
				h.Run(Case{Op: "rfault", A: withA(map[string]string{"stack": stackBin + "-armored", "input": hx([]byte(txt)), "chunk": chunk})})
			}
		}
	}
	// armored messages delivered exactly as the library's own streaming encoder wrote them (a pipe
	// or socket), for every small plaintext length, so that every alignment of the base-X blocks
	// with the end of the body occurs
	maxLen := 40
	if thorough {
		maxLen = 100
	}
	rsk, ssk := h.randBoxSk(), h.randBoxSk()
	for l := 0; l <= maxLen; l++ {
		var rec recWriter
		var err error
		withRand(h.rng.Bytes(200), func() {
			err = guard(func() error {
				w, e := saltpack.NewEncryptArmor62Stream(saltpack.Version2(), &rec, boxSecretFromBytes(ssk), []saltpack.BoxPublicKey{boxPubFromBytes(boxPk(rsk), false)}, "")
				if e != nil {
					return e
				}
				if _, e := w.Write(h.rng.Bytes(l)); e != nil {
					return e
				}
				return w.Close()
			})
		})
		if err != nil {
			fatal("cannot produce an armored message with the streaming encoder: %v", err)
		}
		var segs []string
		for _, n := range rec.sizes {
			segs = append(segs, strconv.Itoa(n))
		}
		h.tag("rfault:encoder-fragmentation")
		h.Run(Case{Op: "rfault", A: map[string]string{"stack": "open-armored", "keys": ringKeysStr([][]byte{rsk}), "signers": "_", "ring": "_", "input": hx(rec.buf), "chunk": "4096", "segs": strings.Join(segs, ",")}})
		// ... and the same text handed over whole by one Read (a bytes.Reader, a file): the fault then falls on a
		// call at which every layer already holds all the data it needs
		h.tag("rfault:all-at-once")
		h.Run(Case{Op: "rfault", A: map[string]string{"stack": "open-armored", "keys": ringKeysStr([][]byte{rsk}), "signers": "_", "ring": "_", "input": hx(rec.buf), "chunk": "1048576"}})
	}
	// every decoder stack on short genuine messages of every length modulo the 32-byte armor block, handed over whole
	for l := 0; l < 66; l += 1 + l/34*6 {
		for _, p := range h.producersOfLen(l) {
			stackBin := map[string]string{"enc": "open", "sc": "sc-open", "att": "verify", "det": ""}[p.name]
			if stackBin == "" {
				continue
			}
			at := map[string]saltpack.MessageType{"enc": saltpack.MessageTypeEncryption, "sc": saltpack.MessageTypeEncryption,
				"att": saltpack.MessageTypeAttachedSignature}[p.name]
			txt, _ := saltpack.Armor62Seal(p.wire, at, "")
			a := map[string]string{"keys": keysOf(p), "signers": signersOf(p), "ring": signersOf(p), "chunk": "1048576"}
			for _, st := range []struct{ stack, input string }{{stackBin, hx(p.wire)}, {stackBin + "-armored", hx([]byte(txt))}} {
				b := map[string]string{"stack": st.stack, "input": st.input}
				for k, v := range a {
					b[k] = v
				}
				h.tag("rfault:all-at-once")
				h.Run(Case{Op: "rfault", A: b})
			}
		}
	}
	h.res.ExhNote = "for each stream and message, a fault is injected at EVERY underlying Write (transient and sticky) / Read (alone transient, alone sticky, with data) call the fault-free run makes"
}

func init() {
	campaigns["C14"] = campaign{
		rule: "cases: (write side) each of 12 encoder streams (sign V1/V2, detached, encrypt V1/V2, signcrypt, their armored forms, the bare armor and basex encoders) x message lengths {0,1,40,700} (up to 1 MiB+10 in thorough) with random Write splits: the fault-free run counts the underlying Write calls N, then one run per k<N with the k-th call failing once and one with it failing from then on; required: the constructor, some Write or Close returns an error. (read side) each decoder stack (decrypt, verify, signcryption open, dearmor, and the armored forms) on genuine messages read through an underlying reader delivering 5/7/64/4096 bytes per call, with an injected non-EOF error at EVERY call k: alone (transient or sticky) or together with data (sticky, including whitespace-only slices of re-flowed armor); required: the stream ends with an error, never cleanly, and what it released is a prefix of the genuine output. An evaluation is one (stream, message) sweep; injections are counted in the distribution.",
		gen:  genFaults,
	}
}

// recWriter records the bytes and the size of every Write call
type recWriter struct {
	buf   []byte
	sizes []int
}

func (w *recWriter) Write(p []byte) (int, error) {
	w.buf = append(w.buf, p...)
	w.sizes = append(w.sizes, len(p))
	return len(p), nil
}
