package main

import (
	"bytes"
	"fmt"
	"io"
	"strconv"
	"strings"
	"testing/iotest"

	"github.com/keybase/saltpack"
)

// implSign runs the implementation's attached/detached signer with pinned randomness.
func implSign(mode string, v saltpack.Version, sk []byte, pieces [][]byte, rng []byte, oneshot bool) (out []byte, left int, err error) {
	key := sigSecretFromBytes(sk)
	left = withRand(rng, func() {
		err = guard(func() error {
			if oneshot {
				var e error
				msg := bytes.Join(pieces, nil)
				if mode == "att" {
					out, e = saltpack.Sign(v, msg, key)
				} else {
					out, e = saltpack.SignDetached(v, msg, key)
				}
				return e
			}
			var buf bytes.Buffer
			var w io.WriteCloser
			var e error
			if mode == "att" {
				w, e = saltpack.NewSignStream(v, &buf, key)
			} else {
				w, e = saltpack.NewSignDetachedStream(v, &buf, key)
			}
			if e != nil {
				return e
			}
			if e := writePieces(w, pieces); e != nil {
				return e
			}
			if e := w.Close(); e != nil {
				return e
			}
			out = buf.Bytes()
			return nil
		})
	})
	return
}

type verifyOut struct {
	hdrErr   error
	pk       []byte
	released []byte
	end      error
}

func implVerifyStream(vd saltpack.VersionValidator, ring sigRing, input []byte, bufsize int, rd func([]byte) io.Reader) (o verifyOut) {
	e := guard(func() error {
		skey, st, err := saltpack.NewVerifyStream(vd, rd(input), ring)
		if err != nil {
			o.hdrErr = err
			return nil
		}
		o.pk = skey.ToKID()
		o.released, o.end = readAllChunked(st, bufsize)
		return nil
	})
	if e != nil {
		if o.pk == nil {
			o.hdrErr = e
		} else {
			o.end = e
		}
	}
	return
}

func (o verifyOut) String() string {
	if o.hdrErr != nil {
		return "err " + errClassHeader(o.hdrErr)
	}
	return "ok " + hx(o.pk) + " " + hx(o.released) + " " + errClass(o.end)
}

func plainReader(b []byte) io.Reader { return bytes.NewReader(b) }

func isPrefixOfAny(p []byte, truth [][]byte) (whole bool, ok bool) {
	for _, t := range truth {
		if bytes.HasPrefix(t, p) {
			ok = true
			if len(t) == len(p) {
				whole = true
			}
		}
	}
	return
}

func init() {
	// ---- sign: correspondence of the emitted bytes + round trip on the implementation ----
	evaluators["sign"] = evaluator{run: func(h *H, c Case) (fs []Failure) {
		mode, v := c.A["mode"], parseVersion(c.A["v"])
		sk := unhx(c.A["sk"])
		pieces := unblist(c.A["pieces"])
		rng := unhx(c.A["rng"])
		oneshot := c.A["oneshot"] == "1"
		msg := bytes.Join(pieces, nil)
		out, left, err := implSign(mode, v, sk, pieces, rng, oneshot)
		if f := retainedChanged(); f != nil {
			fs = append(fs, *f)
		}
		if err == nil && oneshot {
			retain("Sign/SignDetached", out)
		}
		got := "err " + errClass(err)
		if err == nil {
			got = fmt.Sprintf("ok %s %d", hx(out), left)
		}
		var m []string
		if mode == "att" {
			m = h.rn.Call("sign_attached", c.A["v"], hx(sk), blist(pieces), hx(rng))
		} else {
			m = h.rn.Call("sign_detached", c.A["v"], hx(sk), hx(msg), hx(rng))
		}
		if strings.Join(m, " ") != got {
			fs = append(fs, Failure{Kind: "correspondence", Key: "sign-" + mode, Desc: fmt.Sprintf("model %.200s | impl %.200s", strings.Join(m, " "), got)})
		}
		known := v == saltpack.Version1() || v == saltpack.Version2()
		if err != nil && strings.HasPrefix(err.Error(), "PANIC") {
			fs = append(fs, Failure{Kind: "oracle", Key: "sign-panic-" + mode, Desc: fmt.Sprintf("%s signer panics for version %s: %.200s", mode, c.A["v"], err)})
			return
		}
		if !known {
			if err == nil {
				fs = append(fs, Failure{Kind: "oracle", Key: "sign-emits-unknown-version-" + mode, Desc: fmt.Sprintf("%s signer emitted a message labelled version %s", mode, c.A["v"])})
			} else if errClass(err) != "ErrBadVersion" && len(rng) >= 16 {
				fs = append(fs, Failure{Kind: "oracle", Key: "sign-unknown-version-error-" + mode, Desc: "unknown version not refused with ErrBadVersion: " + errClass(err)})
			}
			return
		}
		if len(rng) < 16 {
			if err == nil {
				fs = append(fs, Failure{Kind: "oracle", Key: "sign-rng-fail-open", Desc: "signer succeeded although the randomness source failed"})
			}
			return
		}
		if err != nil {
			fs = append(fs, Failure{Kind: "oracle", Key: "sign-fails", Desc: "signing a message with a known version failed: " + errClass(err)})
			return
		}
		pk := sk[32:]
		// C08: the independent strict receiver written from the specs must parse and authenticate it
		if c.A["spec"] == "1" {
			md := 1
			if mode == "det" {
				md = 2
			}
			ro, re := refVerify(out, md, msg)
			if re != nil {
				fs = append(fs, Failure{Kind: "oracle", Key: "spec-nonconformant-signature-output", Desc: "the reference receiver rejects the library's output: " + re.Error()})
			} else {
				if !bytes.Equal(ro.plaintext, msg) && md == 1 || !bytes.Equal(ro.senderPk, pk) || ro.major != v.Major || ro.minor != v.Minor {
					fs = append(fs, Failure{Kind: "oracle", Key: "spec-decoder-disagrees-signature", Desc: "the reference receiver recovers a different message/signer/version"})
				}
				if len(ro.sigNonce) != 32 {
					fs = append(fs, Failure{Kind: "oracle", Key: "spec-sig-header-nonce-16-bytes", Desc: fmt.Sprintf("signature header nonce has %d bytes; saltpack_signing_v1.md and _v2.md specify 32 random bytes", len(ro.sigNonce))})
				}
				for _, cl := range ro.chunkLens {
					if cl > 1<<20 {
						fs = append(fs, Failure{Kind: "oracle", Key: "spec-chunk-too-large", Desc: "chunk larger than 1 MiB"})
					}
				}
			}
		}
		ring := sigRing{known: [][]byte{pk}}
		other := sigRing{known: [][]byte{bytes.Repeat([]byte{9}, 32)}}
		if mode == "att" {
			k, vm, e := saltpack.Verify(saltpack.CheckKnownMajorVersion, out, ring)
			if e != nil || !bytes.Equal(vm, msg) || !bytes.Equal(k.ToKID(), pk) {
				fs = append(fs, Failure{Kind: "oracle", Key: "sign-roundtrip", Desc: fmt.Sprintf("Verify(Sign(m)) = %d bytes, err %v", len(vm), e)})
			}
			o := implVerifyStream(saltpack.SingleVersionValidator(v), ring, out, 1+h.rng.Intn(70), func(b []byte) io.Reader { return iotest.OneByteReader(bytes.NewReader(b)) })
			if o.hdrErr != nil || o.end != io.EOF || !bytes.Equal(o.released, msg) {
				fs = append(fs, Failure{Kind: "oracle", Key: "sign-roundtrip-stream", Desc: "streaming verification of a genuine message: " + o.String()[:min(200, len(o.String()))]})
			}
			if pe := guard(func() error {
				txt, e := saltpack.Armor62Seal(out, saltpack.MessageTypeAttachedSignature, "")
				if e != nil {
					return e
				}
				_, vm3, _, e := saltpack.Dearmor62Verify(saltpack.CheckKnownMajorVersion, txt, ring)
				if e != nil || !bytes.Equal(vm3, msg) {
					return fmt.Errorf("Dearmor62Verify: %d bytes, err %v", len(vm3), e)
				}
				_, rd, _, e := saltpack.NewDearmor62VerifyStream(saltpack.CheckKnownMajorVersion, strings.NewReader(txt), ring)
				if e != nil {
					return e
				}
				vm4, e := io.ReadAll(rd)
				if e != nil || !bytes.Equal(vm4, msg) {
					return fmt.Errorf("NewDearmor62VerifyStream: %d bytes, err %v", len(vm4), e)
				}
				return nil
			}); pe != nil {
				fs = append(fs, Failure{Kind: "oracle", Key: "sign-roundtrip-armored", Desc: fmt.Sprintf("armored form of a genuine %d-byte signed message does not verify: %.200s", len(msg), pe.Error())})
			}
			_, vm2, e2 := saltpack.Verify(saltpack.CheckKnownMajorVersion, out, other)
			if errClass(e2) != "ErrNoSenderKey" || vm2 != nil {
				fs = append(fs, Failure{Kind: "oracle", Key: "verify-unknown-signer", Desc: fmt.Sprintf("unknown signer: err %v, %d bytes", e2, len(vm2))})
			}
			// detached verification of an attached message must fail
			if _, e3 := saltpack.VerifyDetached(saltpack.CheckKnownMajorVersion, msg, out, ring); e3 == nil {
				fs = append(fs, Failure{Kind: "oracle", Key: "attached-accepted-as-detached", Desc: "VerifyDetached accepted an attached signature"})
			}
		} else {
			k, e := saltpack.VerifyDetached(saltpack.CheckKnownMajorVersion, msg, out, ring)
			if e != nil || !bytes.Equal(k.ToKID(), pk) {
				fs = append(fs, Failure{Kind: "oracle", Key: "detached-roundtrip", Desc: fmt.Sprintf("VerifyDetached(m, SignDetached(m)): %v", e)})
			}
			k2, e2 := saltpack.VerifyDetachedReader(saltpack.SingleVersionValidator(v), iotest.DataErrReader(iotest.OneByteReader(bytes.NewReader(msg))), out, ring)
			if e2 != nil || !bytes.Equal(k2.ToKID(), pk) {
				fs = append(fs, Failure{Kind: "oracle", Key: "detached-roundtrip-reader", Desc: fmt.Sprintf("VerifyDetachedReader with a fragmenting reader: %v", e2)})
			}
			if _, e3 := saltpack.VerifyDetached(saltpack.CheckKnownMajorVersion, msg, out, other); errClass(e3) != "ErrNoSenderKey" {
				fs = append(fs, Failure{Kind: "oracle", Key: "detached-unknown-signer", Desc: fmt.Sprintf("unknown signer: %v", e3)})
			}
			if _, _, e4 := saltpack.Verify(saltpack.CheckKnownMajorVersion, out, ring); e4 == nil {
				fs = append(fs, Failure{Kind: "oracle", Key: "detached-accepted-as-attached", Desc: "Verify accepted a detached signature"})
			}
			// the armored form, with brands at the limits of what the frame grammar allows
			brands := []string{"", "K", strings.Repeat("b", 127), strings.Repeat("B", 128)}
			brand := brands[(len(msg)+int(pk[0]))%len(brands)]
			if pe := guard(func() error {
				txt, e := saltpack.Armor62Seal(out, saltpack.MessageTypeDetachedSignature, brand)
				if e != nil {
					return e
				}
				k3, br, e := saltpack.Dearmor62VerifyDetached(saltpack.CheckKnownMajorVersion, msg, txt, ring)
				if e != nil || br != brand || !bytes.Equal(k3.ToKID(), pk) {
					return fmt.Errorf("Dearmor62VerifyDetached: brand %q, err %v", br, e)
				}
				k4, _, e := saltpack.Dearmor62VerifyDetachedReader(saltpack.CheckKnownMajorVersion, iotest.OneByteReader(bytes.NewReader(msg)), txt, ring)
				if e != nil || !bytes.Equal(k4.ToKID(), pk) {
					return fmt.Errorf("Dearmor62VerifyDetachedReader: %v", e)
				}
				return nil
			}); pe != nil {
				fs = append(fs, Failure{Kind: "oracle", Key: "detached-roundtrip-armored", Desc: fmt.Sprintf("armored detached signature with a %d-character brand does not verify: %.200s", len(brand), pe.Error())})
			}
		}
		return
	}, trivial: func(c Case) bool { return false }}

	// ---- verify: arbitrary bytes into the attached-signature verifier ----
	evaluators["verify"] = evaluator{run: func(h *H, c Case) (fs []Failure) {
		vd := parseValidator(c.A["vd"])
		ring := sigRing{known: unblist(c.A["ring"])}
		input := unhx(c.A["input"])
		bufsize, _ := strconv.Atoi(c.A["buf"])
		if bufsize <= 0 {
			bufsize = 4096
		}
		o := implVerifyStream(vd, ring, input, bufsize, plainReader)
		got := o.String()
		// the same stream pulled the way many callers do (a fixed-size prefix, then io.Copy): same outcome
		for _, k := range []int{1, 16, 1 << 20} {
			consumePattern = k
			o2 := implVerifyStream(vd, ring, input, bufsize, plainReader)
			consumePattern = 0
			if o2.String() != got {
				fs = append(fs, Failure{Kind: "oracle", Key: "verify-result-depends-on-read-pattern", Desc: fmt.Sprintf("read loop: %.150s | %d-byte prefix then io.Copy: %.150s", got, k, o2.String())})
				break
			}
		}
		m := strings.Join(h.rn.Call("verify_stream", c.A["vd"], c.A["ring"], hx(input)), " ")
		if strings.Contains(m, "Unmodelled") {
			h.res.Unmodelled++
		} else if decodeOrderOnly(m, got) {
			h.res.Unmodelled++
		} else if m != got {
			fs = append(fs, Failure{Kind: "correspondence", Key: "verify-stream", Desc: fmt.Sprintf("model %.300s | impl %.300s", m, got)})
		}
		if strings.Contains(got, "PANIC") {
			fs = append(fs, Failure{Kind: "oracle", Key: "verify-panic", Desc: got[:min(300, len(got))]})
		}
		// all-at-once form: the whole message or nothing
		var k saltpack.SigningPublicKey
		var vm []byte
		var e error
		if pe := guard(func() error { k, vm, e = saltpack.Verify(vd, input, ring); return nil }); pe != nil {
			fs = append(fs, Failure{Kind: "oracle", Key: "verify-panic", Desc: pe.Error()[:min(300, len(pe.Error()))]})
			return
		}
		clean := o.hdrErr == nil && o.end == io.EOF
		if clean != (e == nil) || (e == nil && (!bytes.Equal(vm, o.released) || !bytes.Equal(k.ToKID(), o.pk))) || (e != nil && vm != nil) {
			fs = append(fs, Failure{Kind: "oracle", Key: "verify-forms-disagree", Desc: fmt.Sprintf("stream: %.120s ; Verify: %d bytes, %v", got, len(vm), e)})
		}
		if f := armoredFormFailure("verify", input, saltpack.MessageTypeAttachedSignature, e, vm, func(txt string) ([]byte, bool, error) {
			k2, m2, _, e2 := saltpack.Dearmor62Verify(vd, txt, ring)
			return m2, k2 != nil, e2
		}); f != nil {
			fs = append(fs, *f)
		}
		if w, ok := c.A["want"]; ok {
			if o.hdrErr != nil || o.end != io.EOF || !bytes.Equal(o.released, unhx(w)) || hx(o.pk) != c.A["want_pk"] {
				fs = append(fs, Failure{Kind: "oracle", Key: "verify-rejects-spec-message", Desc: fmt.Sprintf("a message produced by the reference signer (%s) was not accepted as expected: %.200s", c.A["knobs"], got)})
			}
		}
		if rk, ok := c.A["must_reject"]; ok && o.hdrErr == nil && (len(o.released) > 0 || o.end == io.EOF) {
			fs = append(fs, Failure{Kind: "oracle", Key: rk, Desc: fmt.Sprintf("%s: accepted: %.160s", c.A["why"], got)})
		}
		// ground truth: what this key really signed (attached mode)
		if t, ok := c.A["truth"]; ok && o.hdrErr == nil {
			truth := unblist(t)
			whole, pref := isPrefixOfAny(o.released, truth)
			if !pref {
				fs = append(fs, Failure{Kind: "oracle", Key: "verify-releases-unsigned-bytes", Desc: fmt.Sprintf("released %.80s is not a prefix of any message signed by the key (mutation %s)", hx(o.released), c.A["mut"])})
			} else if o.end == io.EOF && !whole {
				fs = append(fs, Failure{Kind: "oracle", Key: "verify-clean-end-on-partial-message", Desc: fmt.Sprintf("clean end after %d bytes of a longer signed message (mutation %s)", len(o.released), c.A["mut"])})
			}
		}
		return
	}, trivial: func(c Case) bool { return c.A["input"] == "-" }}

	// ---- verify_detached ----
	evaluators["verify_detached"] = evaluator{run: func(h *H, c Case) (fs []Failure) {
		vd := parseValidator(c.A["vd"])
		ring := sigRing{known: unblist(c.A["ring"])}
		msg, sig := unhx(c.A["msg"]), unhx(c.A["sig"])
		var k saltpack.SigningPublicKey
		var e error
		if pe := guard(func() error { k, e = saltpack.VerifyDetached(vd, msg, sig, ring); return nil }); pe != nil {
			e = pe
		}
		got := "err " + errClassHeader(e)
		if e == nil {
			got = "ok " + hx(k.ToKID())
		}
		m := strings.Join(h.rn.Call("verify_detached", c.A["vd"], c.A["ring"], hx(msg), hx(sig)), " ")
		if strings.Contains(m, "Unmodelled") {
			h.res.Unmodelled++
		} else if m != got && !(m == "err EOF" && got == "err ErrDecode") {
			fs = append(fs, Failure{Kind: "correspondence", Key: "verify-detached", Desc: fmt.Sprintf("model %.200s | impl %.200s", m, got)})
		}
		if strings.Contains(got, "PANIC") {
			fs = append(fs, Failure{Kind: "oracle", Key: "verify-detached-panic", Desc: got[:min(300, len(got))]})
		}
		if f := armoredFormFailure("verify-detached", sig, saltpack.MessageTypeDetachedSignature, e, nil, func(txt string) ([]byte, bool, error) {
			k2, _, e2 := saltpack.Dearmor62VerifyDetached(vd, msg, txt, ring)
			return nil, k2 != nil && e2 != nil, e2
		}); f != nil && !strings.Contains(got, "PANIC") {
			fs = append(fs, *f)
		}
		if rk, ok := c.A["must_reject"]; ok && e == nil {
			fs = append(fs, Failure{Kind: "oracle", Key: rk, Desc: fmt.Sprintf("%s: accepted", c.A["why"])})
		}
		if w, ok := c.A["want_pk"]; ok {
			if e != nil || hx(k.ToKID()) != w {
				fs = append(fs, Failure{Kind: "oracle", Key: "verify-detached-rejects-spec-message", Desc: fmt.Sprintf("a detached signature produced by the reference signer (%s) was not accepted: %.200s", c.A["knobs"], got)})
			}
		}
		if t, ok := c.A["truth"]; ok && e == nil {
			// truth: the (message, signature-file header) pairs really signed in detached mode
			okm := false
			for _, tm := range unblist(t) {
				if bytes.Equal(tm, msg) {
					okm = true
				}
			}
			if !okm {
				fs = append(fs, Failure{Kind: "oracle", Key: "detached-accepts-unsigned", Desc: fmt.Sprintf("VerifyDetached succeeded for a message the key never signed (mutation %s)", c.A["mut"])})
			}
		}
		return
	}}
}

func min(a, b int) int {
	if a < b {
		return a
	}
	return b
}
