package main

import (
	"bytes"
	"strconv"
	"strings"

	"github.com/keybase/saltpack"
)

const mib = 1 << 20

func (h *H) randSigKey() []byte { return newSigSecret(h.rng.Bytes(32)) }

// message lengths the properties single out
func (h *H) pickLen(i int) int {
	small := []int{0, 1, 2, 31, 32, 33, 63, 64, 65, 255, 256, 257, 1000}
	if i < len(small) {
		return small[i]
	}
	return h.rng.Intn(5000)
}

func splitPieces(r *SplitMix, msg []byte) [][]byte {
	var out [][]byte
	if r.Intn(4) == 0 {
		out = append(out, nil) // leading empty write
	}
	for len(msg) > 0 {
		n := 1 + r.Intn(len(msg))
		if r.Intn(3) == 0 {
			n = 1 + r.Intn(min(len(msg), 40))
		}
		out = append(out, msg[:n])
		msg = msg[n:]
		if r.Intn(6) == 0 {
			out = append(out, nil)
		}
	}
	if len(out) == 0 {
		out = [][]byte{nil}
	}
	return out
}

// bigPieces splits a chunk-size message into Write calls in the ways that exercise the
// buffer discipline around the 1 MiB block: a Write landing on a non-empty buffer, a
// block completed exactly, many small writes, a one-byte tail.
func bigPieces(pattern int, msg []byte) [][]byte {
	n := len(msg)
	cut := func(at ...int) [][]byte {
		var out [][]byte
		prev := 0
		for _, a := range at {
			if a < prev {
				a = prev
			}
			if a > n {
				a = n
			}
			out = append(out, msg[prev:a])
			prev = a
		}
		return append(out, msg[prev:])
	}
	switch pattern % 5 {
	case 0:
		return cut(1)
	case 1:
		return cut(n - 1)
	case 2:
		var at []int
		for a := 32768; a < n; a += 32768 {
			at = append(at, a)
		}
		return cut(at...)
	case 3:
		return cut(mib/2, mib, mib+1)
	default:
		return cut(mib-1, mib)
	}
}

func signCase(mode, v string, sk []byte, pieces [][]byte, rng []byte, oneshot bool) Case {
	o := "0"
	if oneshot {
		o = "1"
	}
	return Case{Op: "sign", A: map[string]string{"mode": mode, "v": v, "sk": hx(sk), "pieces": blist(pieces), "rng": hx(rng), "oneshot": o}}
}

// genuine signed messages by one key, for the mutation campaigns
type signedMsg struct {
	v    string
	msg  []byte
	wire []byte
}

func (h *H) makeSigned(mode string, sk []byte, v string, msg []byte) signedMsg {
	out, _, err := implSign(mode, parseVersion(v), sk, [][]byte{msg}, h.rng.Bytes(16), true)
	if err != nil {
		fatal("cannot sign genuine message: %v", err)
	}
	return signedMsg{v, msg, out}
}

func genSignRoundtrip(h *H, modes []string) {
	thorough := h.tier == "thorough"
	n := 40
	if thorough {
		n = 600
	}
	for _, mode := range modes {
		for _, v := range []string{"1.0", "2.0"} {
			for i := 0; i < n; i++ {
				sk := h.randSigKey()
				msg := h.content(h.pickLen(i))
				rng := h.rng.Bytes(16 + h.rng.Intn(8))
				h.Run(signCase(mode, v, sk, [][]byte{msg}, rng, true))
				h.Run(signCase(mode, v, sk, splitPieces(h.rng, msg), rng, false))
			}
			// zero-padded payloads: a non-zero stretch followed by a zero run of every length 1..64 (every
			// alignment of the run against the 32-byte blocks of the armor and against the packet framing)
			if mode == "att" {
				for k := 1; k <= 64; k++ {
					if v == "2.0" && !thorough && k%4 != 0 {
						continue
					}
					msg := append(bytes.Repeat([]byte{0xff}, 32), make([]byte, k)...)
					if k%3 == 0 {
						msg = append(h.rng.Bytes(1+h.rng.Intn(40)), make([]byte, k)...)
					}
					h.tag("content:zero-padded")
					h.Run(signCase(mode, v, h.randSigKey(), [][]byte{msg}, h.rng.Bytes(16), k%2 == 0))
				}
			}
			// chunk-boundary lengths (the model chunks MiB-size lists natively)
			ks := []int{1}
			if thorough {
				ks = []int{1, 2, 3}
			}
			if !thorough && !h.specOracles && mode == "att" {
				// one Write of more than two blocks (the flush loop must run more than once)
				h.tag("len:two-blocks-plus-one")
				// (a sparse payload: random start, then zeros)
				h.Run(signCase(mode, v, h.randSigKey(), [][]byte{append(h.rng.Bytes(100), make([]byte, 2*mib+1-100)...)}, h.rng.Bytes(16), true))
			}
			for _, k := range ks {
				for _, d := range []int{-1, 0, 1} {
					if mode == "det" && !(k == 1 && d == 0) {
						continue
					}
					msg := h.rng.Bytes(k*mib + d)
					h.tag("len:chunk-boundary")
					h.Run(signCase(mode, v, h.randSigKey(), [][]byte{msg}, h.rng.Bytes(16), true))
					// the same lengths streamed in several Write calls
					pats := []int{k + d + 1 + 2*int(v[0]-'1')}
					if thorough {
						pats = []int{0, 1, 2, 3, 4}
					}
					if h.specOracles && !thorough {
						pats = pats[:0] // the streamed forms are exercised by the round-trip campaigns
					}
					for _, pt := range pats {
						h.tag("len:chunk-boundary-streamed")
						h.Run(signCase(mode, v, h.randSigKey(), bigPieces(pt, msg), h.rng.Bytes(16), false))
					}
				}
			}
		}
	}
}

func genSignVersions(h *H) {
	// every Version in {0..3} x {0..2} plus a few odd ones, to every signer
	for _, mode := range []string{"att", "det"} {
		for maj := 0; maj <= 3; maj++ {
			for mnr := 0; mnr <= 2; mnr++ {
				v := strconv.Itoa(maj) + "." + strconv.Itoa(mnr)
				h.Run(signCase(mode, v, h.randSigKey(), [][]byte{h.rng.Bytes(h.rng.Intn(50))}, h.rng.Bytes(16), true))
				h.Run(signCase(mode, v, h.randSigKey(), [][]byte{h.rng.Bytes(h.rng.Intn(50))}, h.rng.Bytes(16), false))
			}
		}
		for _, v := range []string{"-1.0", "2.-1", "255.255", "1000000.0"} {
			h.Run(signCase(mode, v, h.randSigKey(), [][]byte{h.rng.Bytes(5)}, h.rng.Bytes(16), true))
		}
	}
}

func genSignRngFaults(h *H) {
	for _, mode := range []string{"att", "det"} {
		for _, v := range []string{"1.0", "2.0"} {
			for l := 0; l <= 17; l++ {
				h.tag("rngfault")
				h.Run(signCase(mode, v, h.randSigKey(), [][]byte{h.rng.Bytes(10)}, h.rng.Bytes(l), l%2 == 0))
			}
		}
	}
}

// genVerifyMutations: mutated attached signatures against the verifier
func genVerifyMutations(h *H, n int) {
	for i := 0; i < n; i++ {
		sk := h.randSigKey()
		pk := sk[32:]
		v := []string{"1.0", "2.0"}[h.rng.Intn(2)]
		l1, l2 := h.rng.Intn(300), h.rng.Intn(300)
		if i%7 == 0 {
			l1 = 0
		}
		a := h.makeSigned("att", sk, v, h.rng.Bytes(l1))
		b := h.makeSigned("att", sk, []string{"1.0", "2.0"}[h.rng.Intn(2)], h.rng.Bytes(l2))
		d := h.makeSigned("det", sk, v, a.msg)
		truth := blist([][]byte{a.msg, b.msg})
		var input []byte
		var mut string
		switch h.rng.Intn(12) {
		case 0:
			input, mut = a.wire, "none"
		case 1:
			input, mut = d.wire, "detached-as-attached"
		default:
			input, mut = mutateWire(h.rng, a.wire, b.wire)
		}
		h.tag("mut:" + mut)
		vd := "any"
		if h.rng.Intn(4) == 0 {
			vd = "single:" + []string{"1.0", "2.0"}[h.rng.Intn(2)]
		}
		h.Run(Case{Op: "verify", A: map[string]string{"vd": vd, "ring": blist([][]byte{pk}), "input": hx(input),
			"buf": strconv.Itoa([]int{1, 2, 31, 32, 33, 43, 4096}[h.rng.Intn(7)]), "truth": truth, "mut": mut}})
	}
	_ = saltpack.Version1
}

// small multi-packet messages need a small block size; the library's is fixed at
// 1 MiB, so multi-packet genuine messages are produced rarely (they are large).
func genVerifyBigMutations(h *H, n int) {
	for i := 0; i < n; i++ {
		sk := h.randSigKey()
		pk := sk[32:]
		v := []string{"2.0", "1.0"}[i%2]
		la, nm := mib+3+h.rng.Intn(5), 2
		if h.tier == "thorough" {
			la, nm = 2*mib+h.rng.Intn(3)-1, 6
		}
		// chunks that start with the byte values the final flag can take
		ma := h.rng.Bytes(la)
		for off := 0; off < la; off += mib {
			ma[off] = byte(1 - (off/mib)%2)
		}
		a := h.makeSigned("att", sk, v, ma)
		lb := 100
		if i == 0 {
			lb = mib + 50 // a second multi-packet message by the same key: splices at matching positions
		}
		b := h.makeSigned("att", sk, v, h.rng.Bytes(lb))
		run := func(input []byte, mut string) {
			h.tag("mut-big:" + mut)
			h.Run(Case{Op: "verify", A: map[string]string{"vd": "any", "ring": blist([][]byte{pk}), "input": hx(input),
				"buf": "4096", "truth": blist([][]byte{a.msg, b.msg}), "mut": mut}})
		}
		for k := 0; k < nm; k++ {
			input, mut := mutateWire(h.rng, a.wire, b.wire)
			run(input, mut)
		}
		cuts, tags := boundaryCuts(a.wire)
		for k, input := range cuts {
			run(input, tags[k])
		}
		// every byte-string field of every packet lengthened (full 1 MiB chunks included)
		grown, gtags := growFields(h.rng, a.wire)
		for k, input := range grown {
			run(input, gtags[k])
		}
		if ob, ok := splitObjects(b.wire); ok && len(ob) >= 3 {
			// header and first packet of a, the later packets of b (same key, same version, matching positions)
			oa, _ := splitObjects(a.wire)
			if len(oa) >= 3 {
				run(joinObjects(append(append([][]byte{}, oa[:2]...), ob[2:]...)), "splice-tail-of-other-message")
				run(joinObjects(append(append([][]byte{}, ob[:2]...), oa[2:]...)), "splice-tail-of-other-message")
			}
		}
		// every non-final packet re-flagged final with one byte moved across the flag/payload boundary
		objs, _ := splitObjects(a.wire)
		for k := 1; k < len(objs)-1; k++ {
			for how := 0; how < 3; how++ {
				if h.tier != "thorough" && how != (k+i)%3 && how != 0 {
					continue
				}
				run(boundaryShift(objs, k, how, true), "boundary-shift")
			}
		}
	}
}

func genDetachedMutations(h *H, n int) {
	for i := 0; i < n; i++ {
		sk := h.randSigKey()
		pk := sk[32:]
		v := []string{"1.0", "2.0"}[h.rng.Intn(2)]
		msg := h.rng.Bytes(h.rng.Intn(200))
		msg2 := h.rng.Bytes(1 + h.rng.Intn(200))
		a := h.makeSigned("det", sk, v, msg)
		b := h.makeSigned("det", sk, v, msg2)
		at := h.makeSigned("att", sk, v, msg)
		sig, m, mut := a.wire, msg, "none"
		switch h.rng.Intn(15) {
		case 13, 14: // the honest signature under a header with the same fields but different bytes
			if m2, ok := respellHeader(h.rng, a.wire); ok {
				sig, mut = m2, "hdr-respell"
			}
		case 10: // the signature value re-encoded one byte longer (valid 64 bytes first)
			oa, _ := splitObjects(a.wire)
			sn, _, _ := mpParse(oa[1])
			sig, mut = joinObjects([][]byte{oa[0], mpEnc(nBin(append(cloneBytes(sn.Bytes), byte(h.rng.Next()))))}), "sig-value-extended"
		case 11, 12: // a signature value ending in 0x00 re-encoded without that byte (sign until one occurs)
			for try := 0; try < 200; try++ {
				aa := h.makeSigned("det", sk, v, msg)
				oa, _ := splitObjects(aa.wire)
				sn, _, _ := mpParse(oa[1])
				if sn.Bytes[len(sn.Bytes)-1] == 0 {
					sig, mut = joinObjects([][]byte{oa[0], mpEnc(nBin(sn.Bytes[:len(sn.Bytes)-1]))}), "sig-value-zero-tail-dropped"
					break
				}
			}
		case 0:
		case 1: // every-bit style: flip one message bit
			if len(m) > 0 {
				m = cloneBytes(m)
				m[h.rng.Intn(len(m))] ^= 1 << uint(h.rng.Intn(8))
				mut = "msg-bitflip"
			}
		case 2:
			sig, mut = b.wire, "signature-of-other-message"
		case 3:
			sig, mut = at.wire, "attached-as-detached"
		case 4: // transplant: header of a, signature of b
			oa, _ := splitObjects(a.wire)
			ob, _ := splitObjects(b.wire)
			sig, mut = joinObjects([][]byte{oa[0], ob[1]}), "header-transplant"
		case 5:
			sig = cloneBytes(sig)
			sig[h.rng.Intn(len(sig))] ^= 1 << uint(h.rng.Intn(8))
			mut = "sig-bitflip"
		case 6:
			sig, mut = sig[:h.rng.Intn(len(sig))], "sig-truncate"
		default:
			sig, mut = mutateWire(h.rng, a.wire, b.wire)
		}
		h.tag("mut:" + mut)
		cs := Case{Op: "verify_detached", A: map[string]string{"vd": "any", "ring": blist([][]byte{pk}), "msg": hx(m), "sig": hx(sig),
			"truth": blist([][]byte{msg, msg2}), "mut": mut}}
		if mut == "hdr-respell" {
			cs.A["must_reject"], cs.A["why"] = "detached-accepts-respelled-header", "the header bytes differ from the header that was signed (same field values)"
		}
		if strings.HasPrefix(mut, "sig-value-") {
			cs.A["must_reject"], cs.A["why"] = "detached-accepts-changed-signature-value", "the 64-byte signature value was changed ("+mut+")"
		}
		h.Run(cs)
	}
}

func init() {
	campaigns["C05"] = campaign{
		rule: "cases: (mode attached, version, signing key, message split into Write pieces or one-shot, randomness stream); lengths 0,1,2,31..33,255..257,1000, random <5000 and 1 MiB-1/1 MiB/1 MiB+1 (k MiB +-1, k<=3 in thorough); each case compares the emitted bytes and randomness consumption with the extracted model and round-trips through Verify, the streaming verifier under a one-byte reader, and a keyring that does not know the signer. Distinct by (op,args) hash; no case is trivial.",
		gen: func(h *H) {
			genSignRoundtrip(h, []string{"att"})
		},
	}
	campaigns["C06"] = campaign{
		rule: "cases: byte strings derived from genuine attached signatures by structure-aware mutation (bit flips, truncation at every kind of offset, packet swap/duplication/deletion/insertion, splices between two messages by the same key incl. across versions, header field edits with re-encoding, non-minimal re-encodings, final-flag flips, trailing garbage, detached-as-attached) fed to NewVerifyStream (various caller buffer sizes) and Verify; observables compared with the model: signer, released bytes, terminating error class; ground truth: released bytes are a prefix of a message the key signed and the stream ends cleanly only at its end. Trivial: empty input.",
		gen: func(h *H) {
			n := 500
			if h.tier == "thorough" {
				n = 12000
			}
			genVerifyMutations(h, n)
			nb := 2
			if h.tier == "thorough" {
				nb = 8
			}
			genVerifyBigMutations(h, nb)
		},
	}
	campaigns["C07"] = campaign{
		rule: "cases: detached signing (both versions, one-shot and streamed with random Write splits, lengths incl. 0 and 1 MiB) compared with the model and round-tripped through VerifyDetached / VerifyDetachedReader (fragmenting data-with-EOF reader); and (message, signature file) pairs derived from genuine ones by message bit flips, signature bit flips/truncations, header transplants between signatures by the same key, attached-as-detached, structure-aware mutation; ground truth: success only for a message the key signed in detached mode; genuine armored signatures with the frame damaged in one place (marker bit, brand edit on one side, type words of another mode on one side or both, missing footer) through Dearmor62VerifyDetached / -Reader: refused.",
		gen: func(h *H) {
			genSignRoundtrip(h, []string{"det"})
			n := 400
			if h.tier == "thorough" {
				n = 8000
			}
			genDetachedMutations(h, n)
			// the armored entry points refuse every damaged frame around a genuine detached signature
			genArmoredFrames(h, map[string]bool{"det": true, "att": true}, 2)
		},
	}
}
