package main

import (
	"bytes"
	"fmt"
	"strings"

	"github.com/keybase/saltpack"
	"github.com/keybase/saltpack/basic"
)

// hRing is the harness's keyring: strict about lengths, ordered, and it knows
// only what it was given (basic.Keyring accepts every kid).
type hRing struct {
	basic.EphemeralKeyCreator
	keys       []basic.SecretKey
	senders    [][]byte
	allSenders bool
	signers    [][]byte
}

func (r *hRing) LookupBoxSecretKey(kids [][]byte) (int, saltpack.BoxSecretKey) {
	for i, kid := range kids {
		for _, k := range r.keys {
			if bytes.Equal(k.GetPublicKey().ToKID(), kid) {
				return i, k
			}
		}
	}
	return -1, nil
}

func (r *hRing) LookupBoxPublicKey(kid []byte) saltpack.BoxPublicKey {
	if len(kid) != 32 {
		return nil
	}
	if r.allSenders {
		return boxPubFromBytes(kid, false)
	}
	for _, s := range r.senders {
		if bytes.Equal(s, kid) {
			return boxPubFromBytes(kid, false)
		}
	}
	return nil
}

func (r *hRing) GetAllBoxSecretKeys() []saltpack.BoxSecretKey {
	var out []saltpack.BoxSecretKey
	for _, k := range r.keys {
		out = append(out, k)
	}
	return out
}

func (r *hRing) ImportBoxEphemeralKey(kid []byte) saltpack.BoxPublicKey {
	if len(kid) != 32 {
		return nil
	}
	return boxPubFromBytes(kid, false)
}

func (r *hRing) LookupSigningPublicKey(kid []byte) saltpack.SigningPublicKey {
	return sigRing{known: r.signers}.LookupSigningPublicKey(kid)
}

var _ saltpack.SigncryptKeyring = (*hRing)(nil)

// "sk:pk,sk:pk" | "_"
func ringKeysStr(sks [][]byte) string {
	if len(sks) == 0 {
		return "_"
	}
	var it []string
	for _, sk := range sks {
		k := boxSecretFromBytes(sk)
		it = append(it, hx(sk)+":"+hx(k.GetPublicKey().ToKID()))
	}
	return strings.Join(it, ",")
}

func parsePairs(s string) (a, b [][]byte) {
	if s == "_" {
		return
	}
	for _, it := range strings.Split(s, ",") {
		p := strings.SplitN(it, ":", 2)
		a = append(a, unhx(p[0]))
		b = append(b, unhx(p[1]))
	}
	return
}

func makeRing(keys, senders, signers string) *hRing {
	r := &hRing{}
	sks, _ := parsePairs(keys)
	for _, sk := range sks {
		r.keys = append(r.keys, boxSecretFromBytes(sk))
	}
	if senders == "all" {
		r.allSenders = true
	} else {
		r.senders = unblist(senders)
	}
	if signers != "" {
		r.signers = unblist(signers)
	}
	return r
}

// resolver for signcryption symmetric keys
type hResolver struct{ ids, keys [][]byte }

func (r hResolver) ResolveKeys(identifiers [][]byte) ([]*saltpack.SymmetricKey, error) {
	out := make([]*saltpack.SymmetricKey, len(identifiers))
	for i, id := range identifiers {
		for j := range r.ids {
			if bytes.Equal(r.ids[j], id) {
				var k saltpack.SymmetricKey
				copy(k[:], r.keys[j])
				out[i] = &k
				break
			}
		}
	}
	return out, nil
}

// oddResolver: a resolver that knows no identifier and says so in a way the interface allows
type oddResolver struct{ mode int }

func (r oddResolver) ResolveKeys(identifiers [][]byte) ([]*saltpack.SymmetricKey, error) {
	if r.mode == 0 {
		return nil, fmt.Errorf("oddResolver: none of the identifiers is known")
	}
	return make([]*saltpack.SymmetricKey, len(identifiers)+1), nil
}

// recipients "pk:h,pk:v"
func parseRcpts(s string) (out []saltpack.BoxPublicKey, pks [][]byte, hide []bool) {
	if s == "_" {
		return
	}
	for _, it := range strings.Split(s, ",") {
		p := strings.SplitN(it, ":", 2)
		pk := unhx(p[0])
		h := p[1] == "h"
		out = append(out, boxPubFromBytes(pk, h))
		pks = append(pks, pk)
		hide = append(hide, h)
	}
	return
}

func rcptsStr(pks [][]byte, hide []bool) string {
	if len(pks) == 0 {
		return "_"
	}
	var it []string
	for i := range pks {
		f := ":v"
		if hide[i] {
			f = ":h"
		}
		it = append(it, hx(pks[i])+f)
	}
	return strings.Join(it, ",")
}

// basicRing: package basic's keyring holding the given box keys among a few others (its
// GetAllBoxSecretKeys feeds the trial decryption of hidden recipients and of signcryption box recipients)
func basicRing(keys string, r *SplitMix) *basic.Keyring {
	kr := basic.NewKeyring()
	sks, _ := parsePairs(keys)
	add := func(sk []byte) {
		var s, p [32]byte
		copy(s[:], sk)
		copy(p[:], boxPk(sk))
		kr.ImportBoxKey(&p, &s)
	}
	for _, sk := range sks {
		add(sk)
	}
	for i := 0; i < 3; i++ {
		add(r.Bytes(32))
	}
	return kr
}
