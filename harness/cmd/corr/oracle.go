package main

import (
	"crypto/hmac"
	"crypto/sha512"

	"golang.org/x/crypto/curve25519"
	"golang.org/x/crypto/ed25519"
	"golang.org/x/crypto/nacl/box"
	"golang.org/x/crypto/nacl/secretbox"
)

// cryptoOracle answers the model's callbacks with the same primitive
// libraries saltpack links against. Arguments and result are hex.
func cryptoOracle(prim string, args []string) string {
	a := make([][]byte, len(args))
	for i := range args {
		a[i] = unhx(args[i])
	}
	switch prim {
	case "sha512":
		h := sha512.Sum512(a[0])
		return hx(h[:])
	case "hmac512":
		m := hmac.New(sha512.New, a[0])
		m.Write(a[1])
		return hx(m.Sum(nil))
	case "sb_seal":
		var k [32]byte
		var n [24]byte
		if len(a[0]) != 32 || len(a[1]) != 24 {
			fatal("sb_seal: bad key/nonce length %d/%d", len(a[0]), len(a[1]))
		}
		copy(k[:], a[0])
		copy(n[:], a[1])
		return hx(secretbox.Seal(nil, a[2], &n, &k))
	case "sb_open":
		var k [32]byte
		var n [24]byte
		if len(a[0]) != 32 || len(a[1]) != 24 {
			return "!"
		}
		copy(k[:], a[0])
		copy(n[:], a[1])
		out, ok := secretbox.Open(nil, a[2], &n, &k)
		if !ok {
			return "!"
		}
		return hx(out)
	case "dh_pub":
		var s, p [32]byte
		copy(s[:], a[0])
		curve25519.ScalarBaseMult(&p, &s)
		return hx(p[:])
	case "dh_shared":
		var s, p, k [32]byte
		copy(s[:], a[0])
		copy(p[:], a[1])
		box.Precompute(&k, &p, &s)
		return hx(k[:])
	case "ed_pub":
		if len(a[0]) != 64 {
			fatal("ed_pub: secret key length %d", len(a[0]))
		}
		return hx(a[0][32:])
	case "ed_sign":
		return hx(ed25519.Sign(ed25519.PrivateKey(a[0]), a[1]))
	case "ed_verify":
		if len(a[0]) != 32 {
			return "0"
		}
		if ed25519.Verify(ed25519.PublicKey(a[0]), a[1], a[2]) {
			return "1"
		}
		return "0"
	}
	fatal("unknown oracle primitive %s", prim)
	return ""
}
