package main

import (
	"crypto/hmac"
	"crypto/sha512"
)

// cryptoOracle answers the model's callbacks with the same primitive
// libraries saltpack links against. Arguments and result are hex.
func cryptoOracle(prim string, args []string) string {
	switch prim {
	case "sha512":
		h := sha512.Sum512(unhx(args[0]))
		return hx(h[:])
	case "hmac512":
		m := hmac.New(sha512.New, unhx(args[0]))
		m.Write(unhx(args[1]))
		return hx(m.Sum(nil))
	}
	fatal("unknown oracle primitive %s", prim)
	return ""
}
