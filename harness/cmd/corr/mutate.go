package main

// Structure-aware mutation of saltpack wire messages (a header object followed
// by payload packets), used by the authenticity and robustness campaigns.

func cloneBytes(b []byte) []byte { return append([]byte{}, b...) }

// mutateWire returns a mutated copy of a (derived from the genuine message a and,
// for splices, a second genuine message b) and a tag naming the mutation kind.
func mutateWire(r *SplitMix, a, b []byte) ([]byte, string) {
	objsA, okA := splitObjects(a)
	objsB, _ := splitObjects(b)
	if !okA || len(objsA) < 2 {
		m := cloneBytes(a)
		if len(m) > 0 {
			m[r.Intn(len(m))] ^= 1 << uint(r.Intn(8))
		}
		return m, "bitflip"
	}
	switch r.Intn(18) {
	case 17: // one byte-string field of one packet lengthened
		if g, t := growFields(r, a); len(g) > 0 {
			k := r.Intn(len(g))
			return g[k], t[k]
		}
		fallthrough
	case 16: // same header fields, different header bytes
		if m, ok := respellHeader(r, a); ok {
			return m, "hdr-respell"
		}
		fallthrough
	case 0: // bit flip anywhere
		m := cloneBytes(a)
		m[r.Intn(len(m))] ^= 1 << uint(r.Intn(8))
		return m, "bitflip"
	case 1: // bit flip in the first bytes of a random object (tags, lengths, flags)
		m := cloneBytes(a)
		k := r.Intn(len(objsA))
		off := 0
		for i := 0; i < k; i++ {
			off += len(objsA[i])
		}
		span := len(objsA[k])
		if span > 12 {
			span = 12
		}
		m[off+r.Intn(span)] ^= 1 << uint(r.Intn(8))
		return m, "bitflip-structural"
	case 2: // truncate at a random offset
		return cloneBytes(a[:r.Intn(len(a))]), "truncate"
	case 3: // truncate at a packet boundary
		k := 1 + r.Intn(len(objsA)-1)
		return joinObjects(objsA[:k]), "truncate-boundary"
	case 4: // swap two payload packets
		if len(objsA) >= 3 {
			o := append([][]byte{}, objsA...)
			i, j := 1+r.Intn(len(o)-1), 1+r.Intn(len(o)-1)
			o[i], o[j] = o[j], o[i]
			return joinObjects(o), "swap-packets"
		}
		fallthrough
	case 5: // duplicate a packet
		i := 1 + r.Intn(len(objsA)-1)
		o := append([][]byte{}, objsA[:i+1]...)
		o = append(o, objsA[i:]...)
		return joinObjects(o), "dup-packet"
	case 6: // delete a packet
		i := 1 + r.Intn(len(objsA)-1)
		o := append([][]byte{}, objsA[:i]...)
		o = append(o, objsA[i+1:]...)
		return joinObjects(o), "del-packet"
	case 7: // header of a, packets of b
		if len(objsB) >= 2 {
			o := append([][]byte{objsA[0]}, objsB[1:]...)
			return joinObjects(o), "splice-header"
		}
		fallthrough
	case 8: // one packet of b inside a
		if len(objsB) >= 2 {
			o := append([][]byte{}, objsA...)
			o[1+r.Intn(len(o)-1)] = objsB[1+r.Intn(len(objsB)-1)]
			return joinObjects(o), "splice-packet"
		}
		fallthrough
	case 9: // edit a header field and re-encode the header
		hn, _, err := mpParse(objsA[0])
		if err == nil && (hn.Kind == mpBin || hn.Kind == mpStr) {
			inner, _, err := mpParse(hn.Bytes)
			if err == nil && inner.Kind == mpArr && len(inner.Arr) >= 3 {
				tag := "hdr-edit"
				switch r.Intn(8) {
				case 0:
					inner.Arr[0] = nStr([]string{"saltpacK", "pgpgpgpg", "", "saltpack2"}[r.Intn(4)])
					tag = "hdr-format"
				case 1:
					inner.Arr[1] = nArr(nInt(int64(r.Intn(4))), nInt(int64(r.Intn(3))))
					tag = "hdr-version"
				case 2:
					inner.Arr[2] = nInt(int64(r.Intn(5)) - 1)
					tag = "hdr-type"
				case 3:
					k := 3 + r.Intn(len(inner.Arr)-3)
					if inner.Arr[k].Kind == mpBin && len(inner.Arr[k].Bytes) > 0 {
						bb := cloneBytes(inner.Arr[k].Bytes)
						bb[r.Intn(len(bb))] ^= 1
						inner.Arr[k] = nBin(bb)
					}
					tag = "hdr-field-flip"
				case 4:
					if r.Intn(2) == 0 {
						inner.Arr = append(inner.Arr, nInt(7), nStr("future"))
						tag = "hdr-extra-elems"
					} else {
						k := 3 + r.Intn(len(inner.Arr)-3)
						if inner.Arr[k].Kind == mpBin {
							bb := cloneBytes(inner.Arr[k].Bytes)
							switch r.Intn(3) {
							case 0:
								bb = bb[:r.Intn(len(bb)+1)]
							case 1:
								bb = append(bb, byte(r.Next()))
							default:
								bb = nil
							}
							inner.Arr[k] = nBin(bb)
						}
						tag = "hdr-field-resize"
					}
				case 5:
					k := r.Intn(len(inner.Arr))
					inner.Arr[k] = []*mpNode{nNil(), nInt(3), nStr("x"), nArr(), nBool(true)}[r.Intn(5)]
					tag = "hdr-type-change"
				case 6:
					inner.Arr = inner.Arr[:r.Intn(len(inner.Arr))]
					tag = "hdr-short-array"
				default:
					inner.Arr[1] = nArr(inner.Arr[1].Arr[0], nInt(int64(1+r.Intn(5))))
					tag = "hdr-minor"
				}
				nh := nBin(mpEnc(inner))
				o := append([][]byte{mpEnc(nh)}, objsA[1:]...)
				return joinObjects(o), tag
			}
		}
		fallthrough
	case 10: // non-minimal re-encoding of an object's outer header / a bin field
		k := r.Intn(len(objsA))
		n, _, err := mpParse(objsA[k])
		if err == nil {
			if n.Kind == mpBin {
				n.Width = 2 << uint(r.Intn(2))
			} else if n.Kind == mpArr && len(n.Arr) > 0 {
				c := n.Arr[r.Intn(len(n.Arr))]
				c.Width = 2 << uint(r.Intn(2))
				if r.Intn(3) == 0 {
					n.Width = 2
				}
			}
			o := append([][]byte{}, objsA...)
			o[k] = mpEnc(n)
			return joinObjects(o), "reencode-wide"
		}
		fallthrough
	case 11: // tree-level edit of a payload packet
		k := 1 + r.Intn(len(objsA)-1)
		n, _, err := mpParse(objsA[k])
		if err == nil && n.Kind == mpArr && len(n.Arr) > 0 {
			tag := "pkt-edit"
			switch r.Intn(8) {
			case 6, 7: // shift a byte across the boundary between the final flag and the payload in the signed/hashed input
				return boundaryShift(objsA, k, r.Intn(3), r.Intn(2) == 0), "pkt-boundary-shift"
			case 0:
				for _, c := range n.Arr {
					if c.Kind == mpBool {
						c.B = !c.B
						tag = "pkt-final-flip"
						break
					}
				}
			case 1:
				n.Arr = append(n.Arr, nInt(1), nBin([]byte{1, 2, 3}))
				tag = "pkt-extra-elems"
			case 2:
				n.Arr[r.Intn(len(n.Arr))] = []*mpNode{nNil(), nInt(0), nInt(1), nStr("s"), nArr(), nBool(false)}[r.Intn(6)]
				tag = "pkt-type-change"
			case 3:
				n.Arr = n.Arr[:r.Intn(len(n.Arr))]
				tag = "pkt-short-array"
			case 4:
				for _, c := range n.Arr {
					if c.Kind == mpArr {
						if r.Intn(2) == 0 && len(c.Arr) > 0 {
							c.Arr = c.Arr[:len(c.Arr)-1]
						} else {
							c.Arr = nil
						}
						tag = "pkt-list-shrink"
					}
				}
			default:
				c := n.Arr[r.Intn(len(n.Arr))]
				if c.Kind == mpBin && len(c.Bytes) > 0 {
					bb := cloneBytes(c.Bytes)
					if r.Intn(2) == 0 {
						bb = bb[:len(bb)-1]
					} else {
						bb = append(bb, 0)
					}
					c.Bytes = bb
					tag = "pkt-bin-resize"
				}
			}
			o := append([][]byte{}, objsA...)
			o[k] = mpEnc(n)
			return joinObjects(o), tag
		}
		fallthrough
	case 12: // trailing garbage: a whole object
		return append(cloneBytes(a), mpEnc(nInt(int64(r.Intn(100))))...), "trailing-object"
	case 13: // trailing garbage: a partial object or an invalid byte
		g := [][]byte{{0xc4, 0x0a}, {0xc1}, {0x92, 0x01}, {0xc5, 0x00}, {0xdc}}[r.Intn(5)]
		return append(cloneBytes(a), g...), "trailing-partial"
	case 14: // insert a foreign object between packets
		i := 1 + r.Intn(len(objsA)-1)
		o := append([][]byte{}, objsA[:i]...)
		o = append(o, mpEnc(nArr(nBool(false), nBin(nil), nBin(nil))))
		o = append(o, objsA[i:]...)
		return joinObjects(o), "insert-object"
	default: // multi-byte random overwrite
		m := cloneBytes(a)
		p := r.Intn(len(m))
		for i := 0; i < 4 && p+i < len(m); i++ {
			m[p+i] = byte(r.Next())
		}
		return m, "overwrite4"
	}
}

// boundaryShift flips the final flag of packet k (if it has one) and moves one byte
// across the flag/payload boundary of the authenticated input: how = 0 drops the
// payload's first byte, 1 prepends 0x00, 2 prepends 0x01; cut drops the later packets.
func boundaryShift(objs [][]byte, k, how int, cut bool) []byte {
	n, _, err := mpParse(objs[k])
	if err != nil || n.Kind != mpArr {
		return joinObjects(objs)
	}
	for _, c := range n.Arr {
		if c.Kind == mpBool {
			c.B = !c.B
			break
		}
	}
	for i := len(n.Arr) - 1; i >= 0; i-- {
		c := n.Arr[i]
		if c.Kind == mpBin {
			switch {
			case how == 0 && len(c.Bytes) > 0:
				c.Bytes = cloneBytes(c.Bytes[1:])
			case how == 1:
				c.Bytes = append([]byte{0}, c.Bytes...)
			case how == 2:
				c.Bytes = append([]byte{1}, c.Bytes...)
			}
			break
		}
	}
	o := append([][]byte{}, objs[:k]...)
	o = append(o, mpEnc(n))
	if !cut {
		o = append(o, objs[k+1:]...)
	}
	return joinObjects(o)
}

// respellHeader re-encodes the header of a wire message so that every field keeps its
// value but the header BYTES differ (non-minimal encodings, an extra trailing element,
// junk after the list inside the header bin).  The header hash — and with it every
// signature, MAC key and nonce — is defined over the bytes, so the result must be rejected.
func respellHeader(r *SplitMix, a []byte) ([]byte, bool) {
	objs, ok := splitObjects(a)
	if !ok || len(objs) < 2 {
		return nil, false
	}
	hn, _, err := mpParse(objs[0])
	if err != nil || (hn.Kind != mpBin && hn.Kind != mpStr) {
		return nil, false
	}
	inner, _, err := mpParse(hn.Bytes)
	if err != nil || inner.Kind != mpArr || len(inner.Arr) < 4 {
		return nil, false
	}
	var hb []byte
	switch r.Intn(5) {
	case 0: // format name as str8
		inner.Arr[0].Width = 1
		hb = mpEnc(inner)
	case 1: // an extra trailing element
		inner.Arr = append(inner.Arr, nNil())
		hb = mpEnc(inner)
	case 2: // junk after the list, inside the header bin
		hb = append(mpEnc(inner), 0xc0)
	case 3: // a key/nonce field as bin16
		for _, c := range inner.Arr[3:] {
			if c.Kind == mpBin {
				c.Width = 2
				break
			}
		}
		hb = mpEnc(inner)
	default: // the list header as array16
		inner.Width = 2
		hb = mpEnc(inner)
	}
	if string(hb) == string(hn.Bytes) {
		return nil, false
	}
	o := append([][]byte{mpEnc(nBin(hb))}, objs[1:]...)
	return joinObjects(o), true
}

// boundaryCuts returns the truncations of a multi-packet message that a network cut produces
// most naturally: after the header, after each payload packet, and just inside the next object
// (after its first byte) — the places where a streaming decoder sees a clean end of input.
func boundaryCuts(a []byte) (out [][]byte, tags []string) {
	objs, ok := splitObjects(a)
	if !ok {
		return nil, nil
	}
	off := 0
	for i := 0; i < len(objs)-1; i++ {
		off += len(objs[i])
		out = append(out, cloneBytes(a[:off]))
		tags = append(tags, "cut-after-object")
		out = append(out, cloneBytes(a[:off+1]))
		tags = append(tags, "cut-inside-next-object")
	}
	return
}

// packetSubsequences: the header followed by every proper subsequence (order kept) of the payload
// packets, the last kept packet re-flagged as final where the format carries a flag as the last
// array element (V2 / signcryption) — what someone without any key can do to a multi-packet message
func packetSubsequences(a []byte) (out [][]byte, tags []string) {
	objs, ok := splitObjects(a)
	if !ok || len(objs) < 3 {
		return nil, nil
	}
	pk := objs[1:]
	for mask := 1; mask < (1<<uint(len(pk)))-1; mask++ {
		b := cloneBytes(objs[0])
		tag := "subseq"
		last := -1
		for i := range pk {
			if mask&(1<<uint(i)) != 0 {
				last = i
			}
		}
		for i := range pk {
			if mask&(1<<uint(i)) == 0 {
				continue
			}
			q := cloneBytes(pk[i])
			tag += "-" + string(rune('0'+i))
			if i == last && len(q) > 0 && q[len(q)-1] == 0xc2 {
				q[len(q)-1] = 0xc3 // final flag false -> true
				tag += "f"
			}
			b = append(b, q...)
		}
		out = append(out, b)
		tags = append(tags, tag)
	}
	return
}

// growFields: for every payload packet and every byte-string field directly inside it (signature, chunk,
// ciphertext, an authenticator), the message with that field lengthened by a few bytes (its MessagePack
// length re-encoded, everything else untouched) — what an outsider can do to a packet without any key
func growFields(r *SplitMix, a []byte) (out [][]byte, tags []string) {
	objs, ok := splitObjects(a)
	if !ok || len(objs) < 2 {
		return nil, nil
	}
	for pi := 1; pi < len(objs); pi++ {
		nd, _, err := mpParse(objs[pi])
		if err != nil || nd.Kind != mpArr {
			continue
		}
		for fi, f := range nd.Arr {
			if f.Kind != mpBin && f.Kind != mpStr {
				continue
			}
			nd2, _, _ := mpParse(objs[pi])
			g := nd2.Arr[fi]
			g.Bytes = append(cloneBytes(g.Bytes), r.Bytes(1+r.Intn(48))...)
			g.Raw = nil
			nd2.Raw = nil
			o := append([][]byte{}, objs...)
			o[pi] = mpEnc(nd2)
			out = append(out, joinObjects(o))
			tags = append(tags, "grow-field-"+string(rune('0'+pi%10))+"-"+string(rune('0'+fi%10)))
		}
	}
	return
}
