package main

import (
	"bytes"
	"fmt"
	"github.com/keybase/saltpack/encoding/basex"
	"io"
	"strconv"
	"strings"

	"github.com/keybase/saltpack"
)

// schedReader plays a planned sequence of read results: segments of data, each
// possibly carrying an error delivered together with its last bytes, then a
// sticky final error.  It is the Go twin of coq/model/Streams.v's [source].
type schedSeg struct {
	data []byte
	err  error
}
type schedReader struct {
	segs  []schedSeg
	final error
	calls int
}

func (s *schedReader) Read(p []byte) (int, error) {
	s.calls++
	if len(s.segs) == 0 {
		return 0, s.final
	}
	sg := &s.segs[0]
	if len(sg.data) <= len(p) {
		n := copy(p, sg.data)
		err := sg.err
		s.segs = s.segs[1:]
		if err != nil {
			s.segs = nil
			s.final = err
		}
		return n, err
	}
	n := copy(p, sg.data)
	sg.data = sg.data[n:]
	return n, nil
}

func errOfName(s string) error {
	switch s {
	case "EOF":
		return io.EOF
	case "IO":
		return errInjected
	}
	return nil
}

// "hex:err,hex:err"
func parseSegs(s string) []schedSeg {
	if s == "_" {
		return nil
	}
	var out []schedSeg
	for _, it := range strings.Split(s, ",") {
		p := strings.SplitN(it, ":", 2)
		out = append(out, schedSeg{unhx(p[0]), errOfName(p[1])})
	}
	return out
}

func segsStr(segs []schedSeg) string {
	if len(segs) == 0 {
		return "_"
	}
	var it []string
	for _, s := range segs {
		e := ""
		if s.err == io.EOF {
			e = "EOF"
		} else if s.err != nil {
			e = "IO"
		}
		it = append(it, hx(s.data)+":"+e)
	}
	return strings.Join(it, ",")
}

// fragment cuts data into segments according to a named plan
func fragment(r *SplitMix, data []byte, plan string) (segs []schedSeg, final error) {
	final = io.EOF
	cut := func(sizes func() int) {
		d := data
		for len(d) > 0 {
			n := sizes()
			if n > len(d) {
				n = len(d)
			}
			segs = append(segs, schedSeg{data: d[:n]})
			d = d[n:]
		}
	}
	switch plan {
	case "whole":
		cut(func() int { return len(data) })
	case "one":
		cut(func() int { return 1 })
	case "random":
		cut(func() int { return 1 + r.Intn(40) })
	case "big-random":
		cut(func() int { return 1 + r.Intn(5000) })
	case "aligned4096":
		cut(func() int { return 4096 })
	case "whole+eof":
		cut(func() int { return len(data) })
		if len(segs) > 0 {
			segs[len(segs)-1].err = io.EOF
		}
	case "random+eof":
		cut(func() int { return 1 + r.Intn(40) })
		if len(segs) > 0 {
			segs[len(segs)-1].err = io.EOF
		}
	case "one+eof":
		cut(func() int { return 1 })
		if len(segs) > 0 {
			segs[len(segs)-1].err = io.EOF
		}
	}
	return
}

var fragPlans = []string{"whole", "one", "random", "big-random", "aligned4096", "whole+eof", "random+eof", "one+eof"}

func cloneSegs(s []schedSeg) []schedSeg {
	out := make([]schedSeg, len(s))
	for i := range s {
		out[i] = schedSeg{append([]byte{}, s[i].data...), s[i].err}
	}
	return out
}

type fragOutcome struct {
	ok       bool
	out      []byte
	extra    string // identities etc. that must agree on success
	errClass string
}

// decodeStack runs one decoding entry point over a reader and a caller buffer size
func decodeStack(stack string, c Case, rd io.Reader, bufsize int) (o fragOutcome) {
	pe := guard(func() error {
		var st io.Reader
		var err error
		switch stack {
		case "dearmor":
			t := typOf[c.A["chk"]]
			var frame saltpack.Frame
			st, frame, err = saltpack.NewArmor62DecoderStream(rd,
				func(h string) (string, error) { return saltpack.VerifParseFrame(h, t, true) },
				func(h, f string) (string, error) { return saltpack.CheckArmor62(h, f, t) })
			_ = frame
		case "verify":
			var k saltpack.SigningPublicKey
			k, st, err = saltpack.NewVerifyStream(saltpack.CheckKnownMajorVersion, rd, sigRing{known: unblist(c.A["ring"])})
			if err == nil {
				o.extra = hx(k.ToKID())
			}
		case "verify-armored":
			var k saltpack.SigningPublicKey
			var brand string
			k, st, brand, err = saltpack.NewDearmor62VerifyStream(saltpack.CheckKnownMajorVersion, rd, sigRing{known: unblist(c.A["ring"])})
			if err == nil {
				o.extra = hx(k.ToKID()) + " " + brand
			}
		case "open":
			var mki *saltpack.MessageKeyInfo
			mki, st, err = saltpack.NewDecryptStream(saltpack.CheckKnownMajorVersion, rd, makeRing(c.A["keys"], "all", ""))
			if err == nil {
				o.extra = hx(mki.SenderKey.ToKID())
			}
		case "open-armored":
			var mki *saltpack.MessageKeyInfo
			var brand string
			mki, st, brand, err = saltpack.NewDearmor62DecryptStream(saltpack.CheckKnownMajorVersion, rd, makeRing(c.A["keys"], "all", ""))
			if err == nil {
				o.extra = hx(mki.SenderKey.ToKID()) + " " + brand
			}
		case "sc-open":
			_, st, err = saltpack.NewSigncryptOpenStream(rd, makeRing(c.A["keys"], "all", c.A["signers"]), nil)
		case "sc-open-armored":
			_, st, _, err = saltpack.NewDearmor62SigncryptOpenStream(rd, makeRing(c.A["keys"], "all", c.A["signers"]), nil)
		case "classify-decrypt":
			// the convenience entry point that classifies (armored or binary, mode) and then decrypts
			var mt saltpack.MessageType
			var isArm bool
			var brand string
			st, mt, _, _, isArm, brand, _, err = saltpack.ClassifyEncryptedStreamAndMakeDecoder(rd, makeRing(c.A["keys"], "all", c.A["signers"]), nil)
			if err == nil {
				o.extra = fmt.Sprintf("%d %v %s", mt, isArm, brand)
			}
		case "basex":
			st = newBasexDecoder(c.A["enc"], rd)
		}
		if err != nil {
			o.errClass = errClass(err)
			return nil
		}
		var e error
		o.out, e = readAllChunked(st, bufsize)
		if e == io.EOF {
			o.ok = true
		} else {
			o.errClass = errClass(e)
		}
		return nil
	})
	if pe != nil {
		o.ok = false
		o.errClass = clip(pe.Error(), 120)
	}
	return
}

func init() {
	// one input, one decoding stack, many read fragmentations and caller buffer sizes
	evaluators["frag"] = evaluator{run: func(h *H, c Case) (fs []Failure) {
		input := unhx(c.A["input"])
		stack := c.A["stack"]
		base := decodeStack(stack, c, bytes.NewReader(input), 4096)
		if strings.HasPrefix(base.errClass, "PANIC") {
			fs = append(fs, Failure{Kind: "oracle", Key: "frag-panic", Desc: base.errClass})
		}
		r := &SplitMix{s: 99}
		for _, b := range unhx(c.A["seed"]) {
			r.s = r.s*131 + uint64(b)
		}
		bufs := []int{1, 2, 31, 32, 33, 43, 4096}
		type run struct {
			plan string
			segs []schedSeg
			buf  int
		}
		var runs []run
		for _, plan := range fragPlans {
			segs, _ := fragment(r, input, plan)
			runs = append(runs, run{plan, segs, bufs[r.Intn(len(bufs))]})
			runs = append(runs, run{plan, cloneSegs(segs), bufs[r.Intn(len(bufs))]})
		}
		if c.A["twocut"] == "1" && len(input) <= 400 {
			step := 1
			if len(input) > 120 {
				step = 1 + len(input)/60
			}
			for i := 0; i <= len(input); i += step {
				for j := i; j <= len(input); j += step {
					var segs []schedSeg
					for _, p := range [][]byte{input[:i], input[i:j], input[j:]} {
						if len(p) > 0 {
							segs = append(segs, schedSeg{data: append([]byte{}, p...)})
						}
					}
					runs = append(runs, run{fmt.Sprintf("twocut:%d:%d", i, j), segs, bufs[(i+j)%len(bufs)]})
				}
			}
		}
		for _, rn := range runs {
			o := decodeStack(stack, c, &schedReader{segs: cloneSegs(rn.segs), final: io.EOF}, rn.buf)
			if strings.HasPrefix(o.errClass, "PANIC") {
				fs = append(fs, Failure{Kind: "oracle", Key: "frag-panic", Desc: o.errClass})
			}
			bad := ""
			switch {
			case o.ok != base.ok:
				bad = fmt.Sprintf("outcome differs: %v (%s) under fragmentation %q buffer %d, %v (%s) when read whole", o.ok, o.errClass, rn.plan, rn.buf, base.ok, base.errClass)
			case o.ok && (!bytes.Equal(o.out, base.out) || o.extra != base.extra):
				bad = fmt.Sprintf("output differs under fragmentation %q buffer %d", rn.plan, rn.buf)
			case !o.ok && !(bytes.HasPrefix(o.out, base.out) || bytes.HasPrefix(base.out, o.out)):
				bad = fmt.Sprintf("released bytes under fragmentation %q are not prefix-related to those released when read whole", rn.plan)
			}
			if bad != "" {
				fs = append(fs, Failure{Kind: "oracle", Key: "fragmentation-dependent-" + stack, Desc: bad + " (segments " + clip(segsStr(rn.segs), 80) + ")"})
				break
			}
		}
		// the caller's side: a fixed-size prefix pulled first (io.ReadFull style), then io.Copy for the rest
		for _, k := range []int{1, 16, 999} {
			consumePattern = k
			o := decodeStack(stack, c, bytes.NewReader(input), 4096)
			consumePattern = 0
			if o.ok != base.ok || (o.ok && (!bytes.Equal(o.out, base.out) || o.extra != base.extra)) ||
				(!o.ok && !(bytes.HasPrefix(o.out, base.out) || bytes.HasPrefix(base.out, o.out))) {
				fs = append(fs, Failure{Kind: "oracle", Key: "caller-read-pattern-dependent-" + stack, Desc: fmt.Sprintf("a %d-byte prefix then io.Copy gives ok=%v %d bytes (%s); a read loop gives ok=%v %d bytes (%s)", k, o.ok, len(o.out), o.errClass, base.ok, len(base.out), base.errClass)})
				break
			}
		}
		// model denotation for the armor stack
		if stack == "dearmor" {
			m := strings.Join(h.rn.Call("dearmor", c.A["chk"], hx(input)), " ")
			mok := strings.HasPrefix(m, "ok")
			if mok != base.ok || (mok && strings.Fields(m)[1] != hx(base.out)) {
				fs = append(fs, Failure{Kind: "correspondence", Key: "dearmor-stream", Desc: fmt.Sprintf("model %.100s | impl ok=%v %s", m, base.ok, base.errClass)})
			}
		}
		if w, ok := c.A["want"]; ok && (!base.ok || hx(base.out) != w) {
			fs = append(fs, Failure{Kind: "oracle", Key: "frag-rejects-genuine", Desc: fmt.Sprintf("genuine input not decoded by stack %s: %s", stack, base.errClass)})
		}
		return
	}}

	// the streaming base-X decoder (filteringReader + decoder), call by call, against the
	// state-machine model coq/model/BxStream.v
	evaluators["bxd_sched"] = evaluator{run: func(h *H, c Case) (fs []Failure) {
		segs := parseSegs(c.A["segs"])
		final := errOfName(c.A["final"])
		e := encByName(c.A["enc"])
		var sizes []int
		for _, s := range strings.Split(c.A["sizes"], ",") {
			n, _ := strconv.Atoi(s)
			sizes = append(sizes, n)
		}
		d := basex.NewDecoder(e.enc, &schedReader{segs: cloneSegs(segs), final: final})
		var got []string
		var flat []byte
		var endErr error
		for _, n := range sizes {
			buf := make([]byte, n)
			var k int
			var err error
			if pe := guard(func() error { k, err = d.Read(buf); return nil }); pe != nil {
				return append(fs, Failure{Kind: "oracle", Key: "bx-stream-decoder-panic", Desc: clip(pe.Error(), 200)})
			}
			flat = append(flat, buf[:k]...)
			if err == nil {
				got = append(got, "D:"+hx(buf[:k]))
			} else {
				got = append(got, "E:"+hx(buf[:k])+":"+errClass(err))
				if endErr == nil {
					endErr = err
				}
			}
		}
		m := strings.Join(h.rn.Call("bxd_sched", e.name, c.A["segs"], c.A["final"], c.A["sizes"]), " ")
		if m != strings.Join(got, " ") {
			fs = append(fs, Failure{Kind: "correspondence", Key: "bx-stream-decoder", Desc: fmt.Sprintf("model %.200s | impl %.200s", m, strings.Join(got, " "))})
		}
		// property oracle: what the bytes alone decode to (one-shot form)
		var all []byte
		var srcErr error
		for _, s := range segs {
			all = append(all, s.data...)
			if s.err != nil {
				srcErr = s.err
				break
			}
		}
		if srcErr == nil {
			srcErr = final
		}
		one, oneErr := e.enc.DecodeString(string(all))
		if !bytes.HasPrefix(one, flat) {
			fs = append(fs, Failure{Kind: "oracle", Key: "bx-stream-delivers-other-bytes", Desc: fmt.Sprintf("the stream delivered %d bytes that are not a prefix of the %d bytes the same characters decode to one-shot", len(flat), len(one))})
		}
		if srcErr == io.EOF && oneErr == nil && endErr == io.EOF {
			if !bytes.Equal(flat, one) {
				fs = append(fs, Failure{Kind: "oracle", Key: "bx-stream-fragmentation-dependent", Desc: fmt.Sprintf("the stream delivers %d bytes ending in EOF, the same characters decode one-shot to %d bytes", len(flat), len(one))})
			}
		}
		if srcErr == io.EOF && oneErr == nil && endErr != nil && endErr != io.EOF {
			fs = append(fs, Failure{Kind: "oracle", Key: "bx-stream-rejects-valid", Desc: fmt.Sprintf("the stream ends with %v on characters that decode one-shot", endErr)})
		}
		if endErr == io.EOF && (oneErr != nil || srcErr != io.EOF) {
			fs = append(fs, Failure{Kind: "oracle", Key: "bx-stream-clean-end-on-bad-input", Desc: fmt.Sprintf("clean end although one-shot decoding gives %v and the source ends with %v", oneErr, srcErr)})
		}
		return
	}}

	// the whole armored read stack (punctuatedReader -> framedDecoderStream -> base-X decoder), call by
	// call, against the composed state machines of coq/model/ArmorStream.v
	evaluators["ad_sched"] = evaluator{run: func(h *H, c Case) (fs []Failure) {
		segs := parseSegs(c.A["segs"])
		final := errOfName(c.A["final"])
		var sizes []int
		for _, s := range strings.Split(c.A["sizes"], ",") {
			n, _ := strconv.Atoi(s)
			sizes = append(sizes, n)
		}
		var hc saltpack.HeaderChecker
		var fc saltpack.FrameChecker
		if c.A["chk"] != "none" {
			t := typOf[c.A["chk"]]
			hc = func(hd string) (string, error) { return saltpack.VerifParseFrame(hd, t, true) }
			fc = func(hd, ft string) (string, error) { return saltpack.CheckArmor62(hd, ft, t) }
		}
		var d io.Reader
		if pe := guard(func() error {
			var e error
			d, _, e = saltpack.NewArmor62DecoderStream(&schedReader{segs: cloneSegs(segs), final: final}, hc, fc)
			return e
		}); pe != nil {
			return append(fs, Failure{Kind: "oracle", Key: "armor-stream-panic", Desc: clip(pe.Error(), 200)})
		}
		var got []string
		var flat []byte
		var endErr error
		for _, n := range sizes {
			buf := make([]byte, n)
			var k int
			var err error
			if pe := guard(func() error { k, err = d.Read(buf); return nil }); pe != nil {
				return append(fs, Failure{Kind: "oracle", Key: "armor-stream-panic", Desc: clip(pe.Error(), 200)})
			}
			flat = append(flat, buf[:k]...)
			if err == nil {
				got = append(got, "D:"+hx(buf[:k]))
			} else {
				got = append(got, "E:"+hx(buf[:k])+":"+errClass(err))
				if endErr == nil {
					endErr = err
				}
			}
		}
		m := strings.Join(h.rn.Call("ad_sched", c.A["chk"], c.A["segs"], c.A["final"], c.A["sizes"]), " ")
		if strings.Contains(m, "Unmodelled") {
			h.res.Unmodelled++
		} else if m != strings.Join(got, " ") {
			fs = append(fs, Failure{Kind: "correspondence", Key: "armor-stream", Desc: fmt.Sprintf("model %.200s | impl %.200s", m, strings.Join(got, " "))})
		}
		// property oracle: the one-shot form on the bytes alone
		var all []byte
		var srcErr error
		for _, s := range segs {
			all = append(all, s.data...)
			if s.err != nil {
				srcErr = s.err
				break
			}
		}
		if srcErr == nil {
			srcErr = final
		}
		var one []byte
		var oneErr error
		if hc == nil {
			one, _, _, oneErr = saltpack.Armor62Open(string(all))
		} else {
			one, _, _, _, oneErr = saltpack.Armor62OpenWithValidation(string(all), hc, fc)
		}
		if oneErr == nil && !bytes.HasPrefix(one, flat) {
			fs = append(fs, Failure{Kind: "oracle", Key: "armor-stream-delivers-other-bytes", Desc: fmt.Sprintf("the stream delivered %d bytes that are not a prefix of the %d bytes the same text dearmors to", len(flat), len(one))})
		}
		// (without checkers the stream does not look at the characters of the frame sentences, which the
		// one-shot form checks afterwards through Frame.GetHeader/GetFooter: theorem C13_armor_stream_clean_end)
		uncheckedFrame := hc == nil && oneErr != nil && errClass(oneErr) == "ErrBadFrame"
		if endErr == io.EOF && !uncheckedFrame && (oneErr != nil || srcErr != io.EOF || !bytes.Equal(flat, one)) {
			fs = append(fs, Failure{Kind: "oracle", Key: "armor-stream-clean-end-on-bad-input", Desc: fmt.Sprintf("clean end after %d bytes although the one-shot form gives %d bytes, %v and the source ends with %v", len(flat), len(one), oneErr, srcErr)})
		}
		if srcErr == io.EOF && oneErr == nil && endErr != nil && endErr != io.EOF {
			fs = append(fs, Failure{Kind: "oracle", Key: "armor-stream-rejects-valid", Desc: fmt.Sprintf("the stream ends with %v on a text the one-shot form dearmors", endErr)})
		}
		return
	}}

	// punctuatedReader, call by call, against the state-machine model
	evaluators["pr_sched"] = evaluator{run: func(h *H, c Case) (fs []Failure) {
		segs := parseSegs(c.A["segs"])
		final := errOfName(c.A["final"])
		var sizes []int
		for _, s := range strings.Split(c.A["sizes"], ",") {
			n, _ := strconv.Atoi(s)
			sizes = append(sizes, n)
		}
		pr := saltpack.VerifNewPunctuatedReader(&schedReader{segs: cloneSegs(segs), final: final}, '.')
		var got []string
		for _, n := range sizes {
			buf := make([]byte, n)
			k, err := pr.Read(buf)
			switch {
			case err == nil:
				got = append(got, "D:"+hx(buf[:k]))
			case err == saltpack.ErrPunctuated:
				got = append(got, "P:"+hx(buf[:k]))
			default:
				got = append(got, "E:"+hx(buf[:k])+":"+errClass(err))
			}
		}
		m := strings.Join(h.rn.Call("pr_sched", c.A["segs"], c.A["final"], c.A["sizes"]), " ")
		if m != strings.Join(got, " ") {
			fs = append(fs, Failure{Kind: "correspondence", Key: "punctuated-reader", Desc: fmt.Sprintf("model %.200s | impl %.200s", m, strings.Join(got, " "))})
		}
		// property oracle: the delivered pieces are the input cut at the periods, and an error ends it only after all data
		var all, flat []byte
		for _, s := range segs {
			all = append(all, s.data...)
			if s.err != nil {
				break
			}
		}
		ended := false
		for _, g := range got {
			p := strings.SplitN(g, ":", 3)
			flat = append(flat, unhx(p[1])...)
			if p[0] == "P" {
				flat = append(flat, '.')
			}
			if p[0] == "E" {
				ended = true
				break
			}
		}
		if !bytes.HasPrefix(all, flat) || (ended && !bytes.Equal(all, flat)) {
			fs = append(fs, Failure{Kind: "oracle", Key: "punctuated-reader-loses-data", Desc: fmt.Sprintf("source bytes %q, delivered (with periods) %q, ended=%v", clip(string(all), 60), clip(string(flat), 60), ended)})
		}
		// ReadUntilPunctuation depends on the bytes only
		pr2 := saltpack.VerifNewPunctuatedReader(&schedReader{segs: cloneSegs(segs), final: final}, '.')
		lim, _ := strconv.Atoi(c.A["lim"])
		if lim > 0 {
			res, err := pr2.ReadUntilPunctuation(lim)
			g2 := "err " + errClass(err)
			if err == nil {
				g2 = "ok " + hx(res)
			}
			m2 := strings.Join(h.rn.Call("pr_until", c.A["segs"], c.A["final"], c.A["lim"]), " ")
			if m2 != g2 {
				fs = append(fs, Failure{Kind: "correspondence", Key: "read-until-punctuation", Desc: fmt.Sprintf("model %.120s | impl %.120s", m2, g2)})
			}
			// reference: computed from the bytes alone
			want := ""
			if i := bytes.IndexByte(all, '.'); i >= 0 {
				if i >= lim {
					want = "err ErrOverflow"
				} else {
					want = "ok " + hx(all[:i])
				}
			} else if len(all) >= lim {
				want = "err ErrOverflow"
			}
			if want != "" && want != g2 {
				fs = append(fs, Failure{Kind: "oracle", Key: "read-until-punctuation-fragmentation-dependent", Desc: fmt.Sprintf("sentence of the bytes alone: %.80s; with this fragmentation: %.80s", want, g2)})
			}
		}
		return
	}}

	evaluators["cr_sched"] = evaluator{run: func(h *H, c Case) (fs []Failure) {
		chunks := parseSegs(c.A["chunks"])
		var sizes []int
		for _, s := range strings.Split(c.A["sizes"], ",") {
			n, _ := strconv.Atoi(s)
			sizes = append(sizes, n)
		}
		i := 0
		cr := saltpack.VerifNewChunkReader(func() ([]byte, error) {
			if i >= len(chunks) {
				return nil, io.ErrUnexpectedEOF
			}
			ch := chunks[i]
			i++
			return ch.data, ch.err
		})
		var got []string
		var all []byte
		done := false
		for _, n := range sizes {
			buf := make([]byte, n)
			var k int
			var err error
			if pe := guard(func() error { k, err = cr.Read(buf); return nil }); pe != nil {
				got = append(got, ":"+clip(pe.Error(), 40))
				break
			}
			e := ""
			if err != nil {
				e = errClass(err)
			}
			got = append(got, hx(buf[:k])+":"+e)
			all = append(all, buf[:k]...)
			if err != nil {
				done = true
				break
			}
		}
		m := h.rn.Call("cr_sched", c.A["chunks"], c.A["sizes"])
		if len(m) > len(got) {
			m = m[:len(got)]
		}
		if strings.Join(m, " ") != strings.Join(got, " ") {
			fs = append(fs, Failure{Kind: "correspondence", Key: "chunk-reader", Desc: fmt.Sprintf("model %.200s | impl %.200s", strings.Join(m, " "), strings.Join(got, " "))})
		}
		var want []byte
		for _, ch := range chunks {
			want = append(want, ch.data...)
			if ch.err != nil {
				break
			}
		}
		if !bytes.HasPrefix(want, all) || (done && !bytes.Equal(want, all)) {
			fs = append(fs, Failure{Kind: "oracle", Key: "chunk-reader-loses-data", Desc: "bytes delivered differ from the chunks' concatenation"})
		}
		return
	}}
}
