package main

import (
	"bufio"
	"bytes"
	"errors"
	"fmt"
	"golang.org/x/crypto/nacl/secretbox"
	"io"
	"runtime"
	"strconv"
	"strings"
	"time"

	"github.com/keybase/saltpack"
	"github.com/keybase/saltpack/basic"
)

// evilRing: a keyring/resolver that uses every freedom the interfaces allow
type evilRing struct {
	*hRing
	mode int
}

type evilKey struct {
	basic.SecretKey
	mode int
}

func (k evilKey) Unbox(sender saltpack.BoxPublicKey, nonce saltpack.Nonce, msg []byte) ([]byte, error) {
	switch k.mode % 4 {
	case 0:
		return k.SecretKey.Unbox(sender, nonce, msg)
	case 1:
		return nil, nil // "success" with nothing
	case 2:
		return make([]byte, 31), nil // wrong length
	default:
		return nil, errors.New("nope")
	}
}
func (k evilKey) Precompute(peer saltpack.BoxPublicKey) saltpack.BoxPrecomputedSharedKey {
	return evilShared{k.SecretKey.Precompute(peer), k.mode}
}

type evilShared struct {
	inner saltpack.BoxPrecomputedSharedKey
	mode  int
}

func (s evilShared) Unbox(nonce saltpack.Nonce, msg []byte) ([]byte, error) {
	switch s.mode % 4 {
	case 1:
		return nil, nil
	case 2:
		return make([]byte, 33), nil
	}
	return s.inner.Unbox(nonce, msg)
}
func (s evilShared) Box(nonce saltpack.Nonce, msg []byte) []byte { return s.inner.Box(nonce, msg) }

func (r evilRing) LookupBoxSecretKey(kids [][]byte) (int, saltpack.BoxSecretKey) {
	var k saltpack.BoxSecretKey
	if len(r.hRing.keys) > 0 {
		k = evilKey{r.hRing.keys[0], r.mode / 8}
	}
	switch r.mode % 8 {
	case 0:
		i, kk := r.hRing.LookupBoxSecretKey(kids)
		if kk == nil {
			return i, nil
		}
		return i, evilKey{kk.(basic.SecretKey), r.mode / 8}
	case 1:
		return -1, nil
	case 2:
		return len(kids) + 3, k // out of range
	case 3:
		return 0, nil
	case 4:
		return -7, k
	case 5:
		return 0, k // claims the first named recipient whatever it is
	case 6:
		return len(kids) - 1, k
	default:
		// one past the end, or far beyond (the boundary of every bounds check)
		if r.mode/8%2 == 0 {
			return len(kids), k
		}
		return 1 << 30, k
	}
}
func (r evilRing) LookupBoxPublicKey(kid []byte) saltpack.BoxPublicKey {
	if r.mode%3 == 1 {
		return nil
	}
	var p [32]byte
	copy(p[:], kid)
	return boxPubFromBytes(p[:], false)
}
func (r evilRing) ImportBoxEphemeralKey(kid []byte) saltpack.BoxPublicKey {
	if r.mode%5 == 1 {
		return nil
	}
	var p [32]byte
	copy(p[:], kid) // accepts any length, like package basic
	return boxPubFromBytes(p[:], false)
}
func (r evilRing) GetAllBoxSecretKeys() []saltpack.BoxSecretKey {
	if r.mode%7 == 1 {
		return nil
	}
	var out []saltpack.BoxSecretKey
	for _, k := range r.hRing.keys {
		out = append(out, evilKey{k, r.mode / 8})
	}
	return out
}

type evilSigKey struct{ mode int }

func (k evilSigKey) ToKID() []byte { return []byte("evil") }
func (k evilSigKey) Verify(message []byte, signature []byte) error {
	if k.mode%2 == 0 {
		return nil
	}
	return errors.New("no")
}
func (r evilRing) LookupSigningPublicKey(kid []byte) saltpack.SigningPublicKey {
	switch r.mode % 4 {
	case 0:
		return r.hRing.LookupSigningPublicKey(kid)
	case 1:
		return nil
	default:
		return evilSigKey{r.mode}
	}
}

type evilResolver struct{ mode int }

func (r evilResolver) ResolveKeys(ids [][]byte) ([]*saltpack.SymmetricKey, error) {
	var k saltpack.SymmetricKey
	switch r.mode % 5 {
	case 0:
		return nil, nil
	case 1:
		return nil, errors.New("resolver down")
	case 2:
		return make([]*saltpack.SymmetricKey, len(ids)+1), nil
	case 3:
		out := make([]*saltpack.SymmetricKey, len(ids))
		for i := range out {
			out[i] = &k
		}
		return out, nil
	default:
		return make([]*saltpack.SymmetricKey, len(ids)), nil
	}
}

// hostileCall runs every receive-side entry point on the input with the given
// misbehaviour mode, under recover, with a deadline and an allocation budget.
func hostileCall(entry string, input []byte, ring evilRing, res saltpack.SymmetricKeyResolver) (panicMsg string, dur time.Duration, alloc uint64) {
	done := make(chan string, 1)
	var ms0, ms1 runtime.MemStats
	runtime.ReadMemStats(&ms0)
	t0 := time.Now()
	go func() {
		msg := ""
		func() {
			defer func() {
				if r := recover(); r != nil {
					msg = fmt.Sprintf("PANIC in %s: %v", entry, r)
				}
			}()
			vd := saltpack.CheckKnownMajorVersion
			switch entry {
			case "Open":
				saltpack.Open(vd, input, ring)
			case "DecryptStream":
				_, st, err := saltpack.NewDecryptStream(vd, iotestOneByte(input), ring)
				if err == nil {
					readAllChunked(st, 7)
				}
			case "Verify":
				saltpack.Verify(vd, input, ring)
			case "VerifyDetached":
				saltpack.VerifyDetached(vd, []byte("msg"), input, ring)
			case "SigncryptOpen":
				saltpack.SigncryptOpen(input, ring, res)
			case "Dearmor62DecryptOpen":
				saltpack.Dearmor62DecryptOpen(vd, string(input), ring)
			case "Dearmor62Verify":
				saltpack.Dearmor62Verify(vd, string(input), ring)
			case "Dearmor62VerifyDetached":
				saltpack.Dearmor62VerifyDetached(vd, []byte("msg"), string(input), ring)
			case "Dearmor62SigncryptOpen":
				saltpack.Dearmor62SigncryptOpen(string(input), ring, res)
			case "Armor62Open":
				saltpack.Armor62Open(string(input))
			case "IsSaltpackBinarySlice":
				saltpack.IsSaltpackBinarySlice(input)
			case "IsSaltpackArmoredPrefix":
				saltpack.IsSaltpackArmoredPrefix(string(input))
			case "ClassifyStream":
				saltpack.ClassifyStream(bufio.NewReaderSize(bytes.NewReader(input), 64))
			case "ClassifyAndDecrypt":
				pl, _, _, _, _, _, _, err := saltpack.ClassifyEncryptedStreamAndMakeDecoder(bytes.NewReader(input), ring, res)
				if err == nil && pl != nil {
					readAllChunked(pl, 512)
				}
			}
		}()
		done <- msg
	}()
	select {
	case panicMsg = <-done:
	case <-time.After(20 * time.Second):
		panicMsg = "HANG in " + entry + " (no result after 20 s)"
	}
	dur = time.Since(t0)
	runtime.ReadMemStats(&ms1)
	alloc = ms1.TotalAlloc - ms0.TotalAlloc
	return
}

func iotestOneByte(b []byte) io.Reader { return &schedReader{segs: oneByteSegs(b), final: io.EOF} }
func oneByteSegs(b []byte) []schedSeg {
	if len(b) > 4096 {
		return []schedSeg{{data: b}}
	}
	out := make([]schedSeg, len(b))
	for i := range b {
		out[i] = schedSeg{data: b[i : i+1]}
	}
	return out
}

var hostileEntries = []string{"Open", "DecryptStream", "Verify", "VerifyDetached", "SigncryptOpen", "Dearmor62DecryptOpen", "Dearmor62Verify",
	"Dearmor62VerifyDetached", "Dearmor62SigncryptOpen", "Armor62Open", "IsSaltpackBinarySlice", "IsSaltpackArmoredPrefix", "ClassifyStream", "ClassifyAndDecrypt"}

func init() {
	evaluators["hostile"] = evaluator{run: func(h *H, c Case) (fs []Failure) {
		input := unhx(c.A["input"])
		mode, _ := strconv.Atoi(c.A["ring"])
		ring := evilRing{makeRing(c.A["keys"], "all", c.A["signers"]), mode}
		entries := hostileEntries
		if e, ok := c.A["entry"]; ok {
			entries = []string{e}
		}
		for _, entry := range entries {
			msg, dur, alloc := hostileCall(entry, input, ring, evilResolver{mode})
			if msg != "" {
				key := "hostile-panic"
				if strings.HasPrefix(msg, "HANG") {
					key = "hostile-hang"
				}
				fs = append(fs, Failure{Kind: "oracle", Key: key, Desc: clip(msg, 300) + " (mutation " + c.A["mut"] + ", keyring behaviour " + c.A["ring"] + ")"})
			}
			if dur > 5*time.Second {
				fs = append(fs, Failure{Kind: "oracle", Key: "hostile-slow", Desc: fmt.Sprintf("%s took %v on %d bytes", entry, dur, len(input))})
			}
			if alloc > 48<<20+uint64(200*len(input)) {
				fs = append(fs, Failure{Kind: "oracle", Key: "hostile-allocation", Desc: fmt.Sprintf("%s allocated %d MiB for a %d-byte input (mutation %s)", entry, alloc>>20, len(input), c.A["mut"])})
			}
		}
		return
	}, trivial: func(c Case) bool { return c.A["input"] == "-" }}
}

// length-field attacks: a tiny input that announces a huge object
func lengthBombs() [][]byte {
	return [][]byte{
		{0xc6, 0xff, 0xff, 0xff, 0xff, 1, 2, 3},
		{0xc6, 0x7f, 0xff, 0xff, 0xff},
		{0xdd, 0xff, 0xff, 0xff, 0xff, 0xc0},
		{0xdb, 0xff, 0xff, 0xff, 0xf0, 'a'},
		{0xc4, 0x20, 0x95, 0xa8, 's', 'a', 'l', 't', 'p', 'a', 'c', 'k', 0x92, 2, 0, 0, 0xc6, 0xff, 0xff, 0xff, 0xff},
		{0xc4, 0x30, 0x96, 0xa8, 's', 'a', 'l', 't', 'p', 'a', 'c', 'k', 0x92, 2, 0, 0, 0xc4, 0x20, 1, 2, 3},
		{0xc4, 0x18, 0x96, 0xa8, 's', 'a', 'l', 't', 'p', 'a', 'c', 'k', 0x92, 2, 0, 3, 0xc0, 0xc0, 0xdd, 0xff, 0xff, 0xff, 0xff, 0x92, 0xc0, 0xc0},
	}
}

func genHostile(h *H) {
	thorough := h.tier == "thorough"
	n := 350
	if thorough {
		n = 12000
	}
	var prods []producer
	for i := 0; i < n; i++ {
		if i%40 == 0 {
			prods = h.producers()
		}
		p := prods[h.rng.Intn(len(prods))]
		q := prods[h.rng.Intn(len(prods))]
		input := p.wire
		mut := "none"
		armored := h.rng.Intn(3) == 0
		k := 1 + h.rng.Intn(3)
		for j := 0; j < k; j++ { // stacked mutations
			var m string
			input, m = mutateWire(h.rng, input, q.wire)
			mut = m
		}
		if armored {
			at := map[string]saltpack.MessageType{"enc": saltpack.MessageTypeEncryption, "sc": saltpack.MessageTypeEncryption,
				"att": saltpack.MessageTypeAttachedSignature, "det": saltpack.MessageTypeDetachedSignature}[p.name]
			txt, _ := saltpack.Armor62Seal(input, at, []string{"", "KB"}[h.rng.Intn(2)])
			b := []byte(txt)
			for j := 0; j < h.rng.Intn(3); j++ {
				b[h.rng.Intn(len(b))] = []byte{'.', ' ', '!', 'z', '\n', 0, 0xff, '>'}[h.rng.Intn(8)]
			}
			if h.rng.Intn(5) == 0 {
				b = b[:h.rng.Intn(len(b)+1)]
			}
			if h.rng.Intn(3) == 0 {
				b = []byte(mutateFrameWords(h.rng, string(b)))
				mut = "frame-words+" + mut
			}
			input = b
			mut = "armored+" + mut
		}
		h.tag("mut:" + mut)
		h.Run(Case{Op: "hostile", A: map[string]string{"input": hx(input), "keys": keysOf(p), "signers": signersOf(p), "ring": strconv.Itoa(h.rng.Intn(840)), "mut": mut}})
	}
	// packets forged by someone who holds the keys (a co-recipient, the sender): correctly keyed
	// and authenticated, but with every inner length around the fixed-size fields
	{
		bsk, ssk2 := h.randBoxSk(), h.randSigKey()
		psc := &refSc{format: "saltpack", major: 2, minor: 0, mode: 3, signerSk: ssk2, ephSk: h.randBoxSk(), payloadKey: h.rng.Bytes(32),
			rcpts: []refScRcpt{{boxPk: boxPk(bsk)}}, chunks: [][]byte{[]byte("x")}}
		hdr := psc.header()
		hh := sha(hdr)
		for l := 0; l <= 80; l++ {
			for _, final := range []bool{true, false} {
				if !thorough && final != (l%2 == 0) {
					continue
				}
				ct := secretbox.Seal(nil, h.rng.Bytes(l), hashNonce(hh, final, 0), k32(psc.payloadKey))
				wire := append(mpEnc(nBin(hdr)), mpEnc(nArr(nBin(ct), nBool(final)))...)
				h.tag("keyed-short-packet:sc")
				h.Run(Case{Op: "hostile", A: map[string]string{"input": hx(wire), "keys": ringKeysStr([][]byte{bsk}), "signers": blist([][]byte{ssk2[32:]}), "ring": "0", "mut": "sc-keyed-inner-length-" + strconv.Itoa(l)}})
			}
		}
		// encryption: the recipient's authenticator is valid, the ciphertext is arbitrary bytes of every short length
		rsk, esk := h.randBoxSk(), h.randBoxSk()
		for _, mj := range []int{1, 2} {
			for l := 0; l <= 40; l++ {
				if !thorough && l > 20 && l%4 != 0 {
					continue
				}
				garbage := h.rng.Bytes(l)
				pe := &refEnc{format: "saltpack", major: mj, minor: 0, mode: 0, senderSk: esk, ephSk: h.randBoxSk(), payloadKey: h.rng.Bytes(32),
					rcpts: []refRcpt{{pk: boxPk(rsk)}}, chunks: [][]byte{[]byte("y")}, noTerminator: true,
					ctOverride: func(n int, ct []byte) []byte { return garbage }}
				h.tag("keyed-short-packet:enc")
				h.Run(Case{Op: "hostile", A: map[string]string{"input": hx(pe.seal()), "keys": ringKeysStr([][]byte{rsk}), "signers": "_", "ring": "0", "mut": "enc-authenticated-ciphertext-length-" + strconv.Itoa(l)}})
			}
		}
	}
	// messages built by someone who knows a recipient's public key: the payload-key box is authentic but
	// carries a payload key of every length around 32 (the receiver must refuse, not trust the length)
	{
		rsk, ssk2 := h.randBoxSk(), h.randSigKey()
		lens := []int{0, 1, 16, 31, 33, 48, 64}
		if thorough {
			lens = nil
			for l := 0; l <= 70; l++ {
				if l != 32 {
					lens = append(lens, l)
				}
			}
		}
		for _, l := range lens {
			for _, mj := range []int{1, 2} {
				for _, hide := range []bool{false, true} {
					pe := &refEnc{format: "saltpack", major: mj, minor: 0, mode: 0, senderSk: h.randBoxSk(), ephSk: h.randBoxSk(), payloadKey: h.rng.Bytes(l),
						rcpts: []refRcpt{{pk: boxPk(h.randBoxSk())}, {pk: boxPk(rsk), hide: hide}}, chunks: [][]byte{[]byte("y")}}
					h.tag("keyed-payload-key-length:enc")
					h.Run(Case{Op: "hostile", A: map[string]string{"input": hx(pe.seal()), "keys": ringKeysStr([][]byte{rsk}), "signers": "_", "ring": "0", "mut": "enc-boxed-payload-key-length-" + strconv.Itoa(l)}})
				}
			}
			for _, sym := range []bool{false, true} {
				rc := refScRcpt{boxPk: boxPk(rsk)}
				ring := "0"
				if sym {
					rc = refScRcpt{symKey: make([]byte, 32), symID: []byte("some identifier")}
					ring = "3" // the resolver that answers every identifier with the all-zero key
				}
				psc := &refSc{format: "saltpack", major: 2, minor: 0, mode: 3, signerSk: ssk2, ephSk: h.randBoxSk(), payloadKey: h.rng.Bytes(l),
					rcpts: []refScRcpt{rc}, chunks: [][]byte{[]byte("x")}}
				h.tag("keyed-payload-key-length:sc")
				h.Run(Case{Op: "hostile", A: map[string]string{"input": hx(psc.seal()), "keys": ringKeysStr([][]byte{rsk}), "signers": blist([][]byte{ssk2[32:]}), "ring": ring, "mut": "sc-boxed-payload-key-length-" + strconv.Itoa(l)}})
			}
		}
	}
	for i, b := range lengthBombs() {
		for _, ring := range []int{0, 1, 9} {
			h.tag("length-bomb")
			h.Run(Case{Op: "hostile", A: map[string]string{"input": hx(b), "keys": "_", "signers": "_", "ring": strconv.Itoa(ring), "mut": "length-bomb-" + strconv.Itoa(i)}})
		}
		// armored bombs
		txt, _ := saltpack.Armor62Seal(b, saltpack.MessageTypeEncryption, "")
		h.Run(Case{Op: "hostile", A: map[string]string{"input": hx([]byte(txt)), "keys": "_", "signers": "_", "ring": "0", "mut": "armored-length-bomb-" + strconv.Itoa(i)}})
	}
	// frame sentences with every number of words: each genuine armored message (with and without a brand) with
	// every subset of header words, and every subset of footer words, deleted, and with one word doubled
	for _, p := range h.producers() {
		at := map[string]saltpack.MessageType{"enc": saltpack.MessageTypeEncryption, "sc": saltpack.MessageTypeEncryption,
			"att": saltpack.MessageTypeAttachedSignature, "det": saltpack.MessageTypeDetachedSignature}[p.name]
		if p.v != "2.0" {
			continue
		}
		for _, brand := range []string{"", "KB"} {
			txt, _ := saltpack.Armor62Seal(p.wire, at, brand)
			parts := strings.Split(txt, ".")
			if len(parts) < 3 {
				continue
			}
			for _, k := range []int{0, 2} {
				ws := strings.Fields(parts[k])
				var variants [][]string
				for mask := 1; mask < 1<<uint(len(ws)); mask++ {
					var v []string
					for i, w := range ws {
						if mask&(1<<uint(i)) == 0 {
							v = append(v, w)
						}
					}
					variants = append(variants, v)
				}
				for i := range ws {
					v := append(append(append([]string{}, ws[:i+1]...), ws[i]), ws[i+1:]...)
					variants = append(variants, v)
				}
				for _, v := range variants {
					q := append([]string{}, parts...)
					q[k] = []string{"", " "}[k/2] + strings.Join(v, " ")
					h.tag("frame-word-sweep")
					h.Run(Case{Op: "hostile", A: map[string]string{"input": hx([]byte(strings.Join(q, "."))), "keys": keysOf(p), "signers": signersOf(p), "ring": "0", "mut": "frame-word-sweep"}})
				}
			}
		}
	}
	// long runs of one character (frame limits, regexp, base-62 big numbers)
	for _, ch := range []byte{' ', '.', 'z', '>', '\n', 'B'} {
		for _, l := range []int{8191, 8192, 8193, 100000} {
			h.tag("long-run")
			h.Run(Case{Op: "hostile", A: map[string]string{"input": hx(bytes.Repeat([]byte{ch}, l)), "keys": "_", "signers": "_", "ring": "0", "mut": "run-of-" + strconv.Itoa(int(ch))}})
		}
	}
	h.Run(Case{Op: "hostile", A: map[string]string{"input": hx([]byte("BEGIN SALTPACK ENCRYPTED MESSAGE. " + strings.Repeat("z", 200000) + ". END SALTPACK ENCRYPTED MESSAGE.")), "keys": "_", "signers": "_", "ring": "0", "mut": "huge-single-block"}})
}

func init() {
	campaigns["C15"] = campaign{
		rule: "cases: byte strings derived from genuine messages of all seven mode/version combinations by 1-3 stacked structure-aware mutations at the MessagePack-tree level (type changes, list-length changes, nested header edits with re-encoding, truncations, splices, trailing garbage), optionally armored and then mutated at the text level; length-field bombs (tiny inputs announcing 4 GiB objects at every nesting position), long runs of single characters around the 8192-byte frame limit, a 200,000-character block. Each input is given to ALL 14 receive-side entry points (Open, NewDecryptStream over a one-byte reader, Verify, VerifyDetached, SigncryptOpen, the four Dearmor62* forms, Armor62Open, IsSaltpackBinarySlice, IsSaltpackArmoredPrefix, ClassifyStream, ClassifyEncryptedStreamAndMakeDecoder) with a keyring/resolver drawn from 840 misbehaviour combinations (lookups returning nil, -1, out-of-range or arbitrary indices and keys; key imports returning nil; key objects whose Unbox returns nothing, wrong lengths or errors; signing keys that accept everything; resolvers returning errors, wrong counts, nil or wrong keys), under recover, a 20 s deadline and an allocation budget of 48 MiB + 200 bytes per input byte. An evaluation is one input x 14 entry points.",
		gen:  genHostile,
	}
}

// mutateFrameWords deletes, duplicates or inserts a word in the header or the footer sentence
func mutateFrameWords(r *SplitMix, txt string) string {
	parts := strings.SplitN(txt, ".", 4)
	if len(parts) < 3 {
		return txt
	}
	k := []int{0, 2}[r.Intn(2)]
	ws := strings.Fields(parts[k])
	if len(ws) == 0 {
		return txt
	}
	for e := 1 + r.Intn(2); e > 0 && len(ws) > 0; e-- {
		p := r.Intn(len(ws))
		switch r.Intn(3) {
		case 0:
			ws = append(ws[:p], ws[p+1:]...)
		case 1:
			ws = append(ws[:p], append([]string{ws[p]}, ws[p:]...)...)
		default:
			ws = append(ws[:p], append([]string{[]string{"SALTPACK", "MESSAGE", "X", "BEGIN", "END"}[r.Intn(5)]}, ws[p:]...)...)
		}
	}
	lead := ""
	if k == 2 {
		lead = " "
	}
	parts[k] = lead + strings.Join(ws, " ")
	return strings.Join(parts, ".")
}
