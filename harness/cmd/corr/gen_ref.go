package main

import (
	"fmt"
	"strconv"
	"strings"

	"golang.org/x/crypto/ed25519"
)

// random chunking of a message into chunks of 1..max bytes (a spec-following
// sender may use any sizes from 1 byte to 1 MiB)
func randChunks(r *SplitMix, msg []byte, max int) [][]byte {
	var out [][]byte
	for len(msg) > 0 {
		n := 1 + r.Intn(min(len(msg), max))
		out = append(out, msg[:n])
		msg = msg[n:]
	}
	return out
}

type knobs struct {
	extraHeader, extraRcpt, extraPacket, hiddenAsBin bool
	minor                                            int
}

func (h *H) randKnobs() knobs {
	k := knobs{extraHeader: h.rng.Intn(3) == 0, extraRcpt: h.rng.Intn(3) == 0, extraPacket: h.rng.Intn(3) == 0, hiddenAsBin: h.rng.Intn(4) == 0}
	if h.rng.Intn(3) == 0 {
		k.minor = 1 + h.rng.Intn(9)
	}
	return k
}

func (k knobs) String() string {
	return fmt.Sprintf("minor=%d extraHeader=%v extraRcpt=%v extraPacket=%v hiddenAsBin=%v", k.minor, k.extraHeader, k.extraRcpt, k.extraPacket, k.hiddenAsBin)
}

// ---- C09: foreign but spec-following messages must be accepted ----

func genRefAccept(h *H, n int) {
	for i := 0; i < n; i++ {
		kn := h.randKnobs()
		msg := h.rng.Bytes(h.pickLen(i % 25))
		var chunks [][]byte
		switch h.rng.Intn(4) {
		case 0:
			if len(msg) > 150 {
				msg = msg[:150]
			}
			chunks = randChunks(h.rng, msg, 7)
		case 1:
			chunks = randChunks(h.rng, msg, 300)
		default:
			chunks = randChunks(h.rng, msg, 1<<20)
		}
		major := 1 + h.rng.Intn(2)
		if len(chunks) == 0 && major == 2 {
			chunks = [][]byte{nil}
		}
		switch i % 4 {
		case 0: // encryption
			nr := 1 + h.rng.Intn(5)
			p := &refEnc{format: "saltpack", major: major, minor: kn.minor, mode: 0, ephSk: h.randBoxSk(), payloadKey: h.rng.Bytes(32),
				chunks: chunks, extraHeader: kn.extraHeader, extraRcpt: kn.extraRcpt, extraPacket: kn.extraPacket, hiddenAsBin: kn.hiddenAsBin}
			if h.rng.Intn(3) != 0 {
				p.senderSk = h.randBoxSk()
			}
			var rsk [][]byte
			for j := 0; j < nr; j++ {
				sk := h.randBoxSk()
				rsk = append(rsk, sk)
				p.rcpts = append(p.rcpts, refRcpt{pk: boxPk(sk), hide: h.rng.Intn(2) == 0})
			}
			wire := p.seal()
			pos := h.rng.Intn(nr)
			ws := "anon"
			if p.senderSk != nil {
				ws = hx(boxPk(p.senderSk))
			}
			h.tag("ref:enc-v" + strconv.Itoa(major))
			h.Run(Case{Op: "open", A: map[string]string{"vd": "any", "keys": ringKeysStr([][]byte{rsk[pos]}), "senders": "all", "input": hx(wire),
				"buf": strconv.Itoa([]int{1, 33, 4096}[h.rng.Intn(3)]), "want": hx(msg), "want_sender": ws, "want_hidden": b01(p.rcpts[pos].hide), "knobs": kn.String() + " chunks=" + strconv.Itoa(len(chunks))}})
		case 1: // attached signature
			sk := h.randSigKey()
			p := &refSig{format: "saltpack", major: major, minor: kn.minor, mode: 1, sk: sk, nonce: h.rng.Bytes([]int{16, 32, 32, 8}[h.rng.Intn(4)]),
				chunks: chunks, extraHeader: kn.extraHeader, extraPacket: kn.extraPacket}
			wire := p.sign()
			h.tag("ref:att-v" + strconv.Itoa(major))
			h.Run(Case{Op: "verify", A: map[string]string{"vd": "any", "ring": blist([][]byte{sk[32:]}), "input": hx(wire), "buf": strconv.Itoa([]int{1, 33, 4096}[h.rng.Intn(3)]),
				"want": hx(msg), "want_pk": hx(sk[32:]), "knobs": kn.String() + " chunks=" + strconv.Itoa(len(chunks))}})
		case 2: // detached signature
			sk := h.randSigKey()
			p := &refSig{format: "saltpack", major: major, minor: kn.minor, mode: 2, sk: sk, nonce: h.rng.Bytes(32), msg: msg, extraHeader: kn.extraHeader}
			wire := p.sign()
			h.tag("ref:det-v" + strconv.Itoa(major))
			h.Run(Case{Op: "verify_detached", A: map[string]string{"vd": "any", "ring": blist([][]byte{sk[32:]}), "msg": hx(msg), "sig": hx(wire),
				"want_pk": hx(sk[32:]), "knobs": kn.String()}})
		default: // signcryption
			if len(chunks) == 0 {
				chunks = [][]byte{nil}
			}
			p := &refSc{format: "saltpack", major: 2, minor: kn.minor, mode: 3, ephSk: h.randBoxSk(), payloadKey: h.rng.Bytes(32), chunks: chunks,
				extraHeader: kn.extraHeader, extraRcpt: kn.extraRcpt, extraPacket: kn.extraPacket}
			ws := "anon"
			signers := "_"
			if h.rng.Intn(3) != 0 {
				p.signerSk = h.randSigKey()
				ws = hx(p.signerSk[32:])
				signers = blist([][]byte{p.signerSk[32:]})
			}
			nb, ns := h.rng.Intn(3), h.rng.Intn(3)
			if nb+ns == 0 {
				nb = 1
			}
			var bsk [][]byte
			for j := 0; j < nb; j++ {
				sk := h.randBoxSk()
				bsk = append(bsk, sk)
				p.rcpts = append(p.rcpts, refScRcpt{boxPk: boxPk(sk)})
			}
			var symk, symid [][]byte
			for j := 0; j < ns; j++ {
				k, id := h.rng.Bytes(32), h.rng.Bytes(16)
				symk, symid = append(symk, k), append(symid, id)
				p.rcpts = append(p.rcpts, refScRcpt{symKey: k, symID: id})
			}
			// random recipient order
			for j := len(p.rcpts) - 1; j > 0; j-- {
				k := h.rng.Intn(j + 1)
				p.rcpts[j], p.rcpts[k] = p.rcpts[k], p.rcpts[j]
			}
			wire := p.seal()
			keys, resolver := "_", "none"
			if nb > 0 && (ns == 0 || h.rng.Intn(2) == 0) {
				keys = ringKeysStr([][]byte{bsk[h.rng.Intn(nb)]})
			} else {
				j := h.rng.Intn(ns)
				resolver = hx(symid[j]) + ":" + hx(symk[j])
			}
			h.tag("ref:sc")
			h.Run(Case{Op: "sc_open", A: map[string]string{"keys": keys, "signers": signers, "resolver": resolver, "input": hx(wire),
				"buf": strconv.Itoa([]int{1, 33, 4096}[h.rng.Intn(3)]), "want": hx(msg), "want_signer": ws, "knobs": kn.String() + " chunks=" + strconv.Itoa(len(chunks))}})
		}
	}
}

func init() {
	campaigns["C09"] = campaign{
		rule: "cases: messages produced by the independent reference sender (harness/cmd/corr/ref.go, written from specs/*.md) in all four modes with random chunkings (max chunk 7 / 300 / 1 MiB), V1 and V2, minor versions 0..9, extra trailing elements in header / recipient pairs / payload packets, anonymous-recipient ids as nil or empty bin, signature nonces of 8/16/32 bytes, random recipient order/visibility and opener position; each is fed to the corresponding /repo entry point (stream form with caller buffers 1/33/4096 and the all-at-once form) and to the extracted model; required: accepted with exactly the reference plaintext, sender and hidden flag. Distinct by (op,args) hash.",
		gen: func(h *H) {
			n := 400
			if h.tier == "thorough" {
				n = 8000
			}
			genRefAccept(h, n)
		},
	}
	_ = strings.Join
	_ = ed25519.Sign
}
