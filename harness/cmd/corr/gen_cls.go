package main

import (
	"bufio"
	"bytes"
	"fmt"
	"io"
	"strconv"
	"strings"

	"github.com/keybase/saltpack"
)

func genClassify(h *H) {
	thorough := h.tier == "thorough"
	rounds := 1
	if thorough {
		rounds = 3
	}
	brands := []string{"", "KB", "KEYBASE", randBrand(h.rng, 40)}
	for r := 0; r < rounds; r++ {
		prods := h.producers()
		if r == 0 {
			prods = append(prods, h.bigHeaderProducers()...)
		}
		for _, p := range prods {
			big := len(p.wire) > 60000
			typ := map[string]int{"enc": 0, "att": 1, "det": 2, "sc": 3}[p.name]
			v := parseVersion(p.v)
			full := fmt.Sprintf("cls:%d:%d.%d", typ, v.Major, v.Minor)
			what := p.name + " " + p.v
			// binary: every prefix length up to 40 and the whole message
			for k := 0; k <= len(p.wire); k++ {
				if k > 40 && k != len(p.wire) {
					continue
				}
				a := map[string]string{"b": hx(p.wire[:k]), "full": full, "what": what, "k": strconv.Itoa(k)}
				if k == len(p.wire) {
					a["whole"] = "1"
				}
				h.Run(Case{Op: "cls_bin", A: a})
			}
			// armored: every prefix length of the armored text, plain and re-flowed
			at := map[string]saltpack.MessageType{"enc": saltpack.MessageTypeEncryption, "sc": saltpack.MessageTypeEncryption,
				"att": saltpack.MessageTypeAttachedSignature, "det": saltpack.MessageTypeDetachedSignature}[p.name]
			for bi, brand := range brands {
				if !thorough && bi != r%len(brands) && bi != (r+1)%len(brands) {
					continue
				}
				txt, _ := saltpack.Armor62Seal(p.wire, at, brand)
				for mode := 0; mode <= 2; mode++ {
					t2 := txt
					if mode > 0 {
						t2 = reflow(h.rng, txt, mode)
					}
					lim := len(t2)
					step := 1
					if lim > 400 {
						// every length through the header and the first block, then sampled
						step = 1
					}
					dense := 130 + 3*len(brand)
					if thorough {
						dense = 260 + 3*len(brand)
					}
					for k := 0; k <= lim; k += step {
						if big && k > dense && k != 500 && k != 2000 {
							// the model's armored classifier is quadratic in the prefix length; the whole
							// text is still classified by the implementation in the cls_stream case below
							continue
						}
						if k > dense && k != lim {
							if thorough && k%37 != 0 || !thorough && k%211 != 0 {
								continue
							}
						}
						a := map[string]string{"s": hx([]byte(t2[:k])), "full": full, "what": what + " armored brand=" + brand, "k": strconv.Itoa(k), "brand": hx([]byte(brand))}
						if k == lim {
							a["whole"] = "1"
						}
						h.tag("armored-prefix")
						h.Run(Case{Op: "cls_arm", A: a})
					}
				}
				// ClassifyStream and the classify-and-decrypt entry point on the whole armored and binary message
				h.Run(Case{Op: "cls_stream", A: map[string]string{"armored": hx([]byte(txt)), "binary": hx(p.wire), "full": full, "brand": hx([]byte(brand)),
					"keys": keysOf(p), "signers": signersOf(p), "msg": hx(p.msg), "name": p.name}})
				// ... and on legally re-flowed forms of the whole armored text: quoted as in an e-mail reply ("> " before
				// every line, so that '>' is the first byte the classifier sees), indented, and randomly re-flowed
				quoted := "> " + strings.Replace(strings.Replace(txt, " ", "\n", 3), "\n", "\n> ", -1)
				for _, alt := range []string{quoted, ">" + txt, "\n\t  " + txt, "> > " + txt, reflow(h.rng, txt, 1)} {
					h.tag("cls-stream-reflowed")
					h.Run(Case{Op: "cls_stream", A: map[string]string{"armored": hx([]byte(alt)), "binary": hx(p.wire), "full": full, "brand": hx([]byte(brand)),
						"keys": keysOf(p), "signers": signersOf(p), "msg": hx(p.msg), "name": p.name}})
				}
				if bi == 0 && !big {
					// the longest header sentences the frame grammar allows: a 128-character brand and the
					// words separated by quoting runs, so that the sentence approaches 512 characters
					lb := randBrand(h.rng, 128)
					t2, _ := saltpack.Armor62Seal(p.wire, at, lb)
					for _, target := range []int{400, 481, 505} {
						hdrEnd := strings.Index(t2, ".")
						words := strings.Fields(t2[:hdrEnd])
						pad := (target - len(strings.Join(words, ""))) / (len(words) - 1)
						sep := "\n" + strings.Repeat("> ", pad/2)
						long := strings.Join(words, sep) + t2[hdrEnd:]
						h.tag("long-header-sentence")
						h.Run(Case{Op: "cls_stream", A: map[string]string{"armored": hx([]byte(long)), "binary": hx(p.wire), "full": full, "brand": hx([]byte(lb)),
							"keys": keysOf(p), "signers": signersOf(p), "msg": hx(p.msg), "name": p.name, "longframe": "1"}})
					}
				}
			}
		}
	}
	// arbitrary non-saltpack strings: the small-alphabet enumeration and random bytes
	al := []byte{'.', ' ', '0', 'z', '!', '>', 'B'}
	maxLen := 5
	if thorough {
		maxLen = 6
	}
	var rec func(p []byte)
	rec = func(p []byte) {
		h.Run(Case{Op: "cls_arm", A: map[string]string{"s": hx(p)}})
		if len(p) == maxLen {
			return
		}
		for _, ch := range al {
			rec(append(append([]byte{}, p...), ch))
		}
	}
	rec(nil)
	for i := 0; i < 2000; i++ {
		b := h.rng.Bytes(23 + h.rng.Intn(20))
		if i%2 == 0 {
			copy(b, []byte{0xc4, 0x40, 0x95, 0xa8, 's', 'a', 'l', 't', 'p', 'a', 'c', 'k'})
			b[h.rng.Intn(len(b))] ^= byte(1 << uint(h.rng.Intn(8)))
		}
		h.Run(Case{Op: "cls_bin", A: map[string]string{"b": hx(b)}})
	}
	// partial headers
	for _, s := range []string{"B", "BE", "BEGIN", "BEGIN ", "BEGIN K", "BEGIN KB ", "BEGIN KB S", "BEGIN SALT", "BEGIN KB SALTPACK", "BEGIN KB SALTPACK ENC",
		"BEGIN KB SALTPACK ENCRYPTED MESSAGE", "BEGIN KB SALTPACK ENCRYPTED MESSAGE.", "BEGIN KB SALTPACK ENCRYPTED MESSAGE. ", "END", "BEGIN KB SALTPACK SIGNED",
		"BEGIN KB SALTPACK DETACHED SIGNATURE", "BEGIN KB SALTPACK SIGNED MESSAGEX", "BEGIN A B C D E", "BEGIN KB KB SALTPACK", ">\n BEGIN\tKB", "BEGIN KB SALTPACK ENCRYPTED MESSAGE ."} {
		h.Run(Case{Op: "cls_arm", A: map[string]string{"s": hx([]byte(s))}})
	}
}

// genuine messages whose header is 65536 bytes or longer, so that the outer header object is a
// MessagePack bin32 (the library's own Seal/SigncryptSeal to several hundred recipients)
func (h *H) bigHeaderProducers() []producer {
	var out []producer
	msg := h.rng.Bytes(20)
	rsk, ssk := h.randBoxSk(), h.randBoxSk()
	var pks []string
	for i := 0; i < 800; i++ {
		pk := boxPk(h.rng.Bytes(32))
		if i == 799 {
			pk = boxPk(rsk)
		}
		pks = append(pks, hx(pk)+":v")
	}
	w, _, err := implSeal(parseVersion("2.0"), hx(ssk), strings.Join(pks, ","), [][]byte{msg}, h.rng.Bytes(8192), true)
	if err != nil {
		fatal("big-header producer: %v", err)
	}
	if w[0] != 0xc6 {
		fatal("big-header producer: header is not a bin32 (%x)", w[0])
	}
	out = append(out, producer{name: "enc", v: "2.0", wire: w, msg: msg, boxSk: rsk, encSk: ssk})
	return out
}

func keysOf(p producer) string {
	if p.boxSk == nil {
		return "_"
	}
	return ringKeysStr([][]byte{p.boxSk})
}
func signersOf(p producer) string {
	if p.sigSk == nil {
		return "_"
	}
	return blist([][]byte{p.sigSk[32:]})
}

func init() {
	// ClassifyStream (various bufio sizes, nothing consumed) and ClassifyEncryptedStreamAndMakeDecoder
	evaluators["cls_stream"] = evaluator{run: func(h *H, c Case) (fs []Failure) {
		armored, binary := unhx(c.A["armored"]), unhx(c.A["binary"])
		brand := string(unhx(c.A["brand"]))
		for _, form := range []struct {
			name string
			data []byte
			arm  bool
		}{{"armored", armored, true}, {"binary", binary, false}} {
			for _, sz := range []int{4096, 1024, 300} {
				if !form.arm && sz == 300 {
					sz = 23
				}
				if form.arm && c.A["longframe"] == "1" && sz == 300 {
					continue // the header sentence alone is longer than this buffer
				}
				br := bufio.NewReaderSize(bytes.NewReader(form.data), sz)
				var isArm bool
				var b string
				var mt saltpack.MessageType
				var v saltpack.Version
				var err error
				if pe := guard(func() error { isArm, b, mt, v, err = saltpack.ClassifyStream(br); return nil }); pe != nil {
					return append(fs, Failure{Kind: "oracle", Key: "classify-panic", Desc: clip(pe.Error(), 200)})
				}
				got := clsStr(mt, v, err)
				if got != c.A["full"] || isArm != form.arm || (form.arm && b != brand) {
					fs = append(fs, Failure{Kind: "oracle", Key: "classify-stream-wrong", Desc: fmt.Sprintf("ClassifyStream(%s, bufio %d) = armored %v brand %q %s; want armored %v brand %q %s", form.name, sz, isArm, b, got, form.arm, brand, c.A["full"])})
				}
				rest, _ := io.ReadAll(br)
				if !bytes.Equal(rest, form.data) {
					fs = append(fs, Failure{Kind: "oracle", Key: "classify-consumes-input", Desc: fmt.Sprintf("ClassifyStream consumed input (%s, bufio %d)", form.name, sz)})
				}
			}
			// the classification is a function of the bytes, not of how the underlying reader cuts them
			for _, sizes := range [][]int{{1}, {7}, {1 + h.rng.Intn(40), 1 + h.rng.Intn(90), 1 + h.rng.Intn(300)}} {
				br := bufio.NewReaderSize(&segReader{data: form.data, sizes: sizes}, 4096)
				var isArm bool
				var b string
				var mt saltpack.MessageType
				var v saltpack.Version
				var err error
				if pe := guard(func() error { isArm, b, mt, v, err = saltpack.ClassifyStream(br); return nil }); pe != nil {
					return append(fs, Failure{Kind: "oracle", Key: "classify-panic", Desc: clip(pe.Error(), 200)})
				}
				got := clsStr(mt, v, err)
				if got != c.A["full"] || isArm != form.arm || (form.arm && b != brand) {
					fs = append(fs, Failure{Kind: "oracle", Key: "classify-stream-fragmentation-dependent", Desc: fmt.Sprintf("ClassifyStream(%s, bufio 4096) over a reader delivering %v bytes per Read = armored %v brand %q %s; over an unfragmented reader: armored %v brand %q %s", form.name, sizes, isArm, b, got, form.arm, brand, c.A["full"])})
					break
				}
				rest, _ := io.ReadAll(br)
				if !bytes.Equal(rest, form.data) {
					fs = append(fs, Failure{Kind: "oracle", Key: "classify-consumes-input", Desc: fmt.Sprintf("ClassifyStream consumed input (%s, reads of %v)", form.name, sizes)})
					break
				}
			}
			// convenience entry point = direct entry point
			ring := makeRing(c.A["keys"], "all", c.A["signers"])
			var plain io.Reader
			var mt saltpack.MessageType
			var mki *saltpack.MessageKeyInfo
			var spk saltpack.SigningPublicKey
			var isArm bool
			var b string
			var err error
			if pe := guard(func() error {
				var src io.Reader = bytes.NewReader(form.data)
				if h.rng.Intn(2) == 0 {
					src = &segReader{data: append([]byte{}, form.data...), sizes: []int{1 + h.rng.Intn(60), 1 + h.rng.Intn(500)}}
				}
				plain, mt, mki, spk, isArm, b, _, err = saltpack.ClassifyEncryptedStreamAndMakeDecoder(src, ring, nil)
				return nil
			}); pe != nil {
				return append(fs, Failure{Kind: "oracle", Key: "classify-panic", Desc: clip(pe.Error(), 200)})
			}
			switch c.A["name"] {
			case "enc", "sc":
				var out []byte
				if err == nil {
					out, err = io.ReadAll(plain)
				}
				bad := err != nil || !bytes.Equal(out, unhx(c.A["msg"])) || isArm != form.arm || (form.arm && b != brand)
				if !bad && c.A["name"] == "enc" {
					dm, dpt, de := saltpack.Open(saltpack.CheckKnownMajorVersion, binary, ring)
					bad = de != nil || !bytes.Equal(dpt, out) || mki == nil || !bytes.Equal(dm.SenderKey.ToKID(), mki.SenderKey.ToKID()) || mt != saltpack.MessageTypeEncryption
				}
				if !bad && c.A["name"] == "sc" {
					ds, dpt, de := saltpack.SigncryptOpen(binary, ring, nil)
					bad = de != nil || !bytes.Equal(dpt, out) || spk == nil || !bytes.Equal(ds.ToKID(), spk.ToKID()) || mt != saltpack.MessageTypeSigncryption
				}
				if bad {
					fs = append(fs, Failure{Kind: "oracle", Key: "classify-and-decrypt-differs", Desc: fmt.Sprintf("ClassifyEncryptedStreamAndMakeDecoder(%s %s): err %v, differs from the direct entry point", c.A["name"], form.name, err)})
				}
			default:
				if err == nil {
					fs = append(fs, Failure{Kind: "oracle", Key: "classify-and-decrypt-accepts-signature", Desc: "a signature message was accepted by the decrypting convenience entry point"})
				}
			}
		}
		return
	}}

	campaigns["C16"] = campaign{
		rule: "cases: library-produced messages of all seven mode/version combinations, binary and armored with several brands, plain and after two kinds of re-flowing: EVERY prefix length through the header and the first blocks (then every 37th) and the whole message, fed to IsSaltpackBinarySlice / IsSaltpackArmoredPrefix: answer must be the full answer or 'need more data', never 'not saltpack' or another mode, and equal to the model's; ClassifyStream with bufio sizes 23/300/1024/4096 (correct armoring, brand, mode, version; nothing consumed); ClassifyEncryptedStreamAndMakeDecoder = direct entry point (plaintext, identities); arbitrary non-saltpack text (every string over {'.',' ','0','z','!','>','B'} up to length 5/6), partial headers, and random/mutated binary prefixes: model = implementation.",
		gen:  genClassify,
	}
}
