package main

import (
	"bytes"
	"fmt"
	"io"
	"strconv"
	"strings"

	"github.com/keybase/saltpack"
)

// armoredFormFailure: the armored all-at-once entry point, given the armored text of the very same
// bytes, must agree with the binary all-at-once entry point: it succeeds exactly when that one does,
// returns the same bytes, and returns nothing at all (no bytes, no key) together with an error.
// call returns (released bytes, whether a key/key-info that only a success may return was non-nil, error).
func armoredFormFailure(key string, input []byte, typ saltpack.MessageType, binErr error, binOut []byte, call func(txt string) ([]byte, bool, error)) *Failure {
	var out []byte
	var extra bool
	var e error
	if pe := guard(func() error {
		txt, ae := saltpack.Armor62Seal(input, typ, "VERIF")
		if ae != nil {
			return ae
		}
		out, extra, e = call(txt)
		return nil
	}); pe != nil {
		return &Failure{Kind: "oracle", Key: key + "-armored-panic", Desc: clip(pe.Error(), 300)}
	}
	switch {
	case e != nil && (len(out) != 0 || extra):
		return &Failure{Kind: "oracle", Key: key + "-armored-returns-with-error", Desc: fmt.Sprintf("the armored all-at-once form failed (%v) and still returned %d bytes (key/info returned: %v)", e, len(out), extra)}
	case (e == nil) != (binErr == nil):
		return &Failure{Kind: "oracle", Key: key + "-armored-form-disagrees", Desc: fmt.Sprintf("binary all-at-once form: err %v ; armored all-at-once form of the same bytes: err %v", binErr, e)}
	case e == nil && !bytes.Equal(out, binOut):
		return &Failure{Kind: "oracle", Key: key + "-armored-form-disagrees", Desc: fmt.Sprintf("binary form returns %d bytes, armored form of the same bytes %d", len(binOut), len(out))}
	}
	return nil
}

// frameVariants: the armored text with its frame damaged in one place — every variant must be refused by
// the armored entry points of the message's mode (the footer has to mirror the header, and both have to
// name the type the entry point serves)
func frameVariants(r *SplitMix, txt, brand string, mode string) (out []string, why []string) {
	p1 := strings.Index(txt, ".")
	if p1 < 0 {
		return
	}
	p2 := p1 + 1 + strings.Index(txt[p1+1:], ".")
	if p2 <= p1 {
		return
	}
	p3 := p2 + 1 + strings.Index(txt[p2+1:], ".")
	if p3 <= p2 {
		return
	}
	hdr, body, ftr, rest := txt[:p1], txt[p1:p2+1], txt[p2+1:p3], txt[p3:]
	add := func(h, f, w string) { out = append(out, h+body+f+rest); why = append(why, w) }
	add(hdr, strings.Replace(ftr, "END", "DND", 1), "footer marker with one bit flipped")
	add(strings.Replace(hdr, "BEGIN", "BEGIM", 1), ftr, "header marker with one bit flipped")
	if brand != "" {
		add(hdr, strings.Replace(ftr, brand, editBrand(r, brand), 1), "footer brand one character edit away from the header's")
		add(strings.Replace(hdr, brand, editBrand(r, brand), 1), ftr, "header brand one character edit away from the footer's")
	} else {
		add(hdr, strings.Replace(ftr, "END ", "END KB ", 1), "footer with a brand the header does not have")
	}
	own := map[string]string{"enc": "ENCRYPTED MESSAGE", "sc": "ENCRYPTED MESSAGE", "att": "SIGNED MESSAGE", "det": "DETACHED SIGNATURE"}[mode]
	for _, other := range []string{"ENCRYPTED MESSAGE", "SIGNED MESSAGE", "DETACHED SIGNATURE"} {
		if other == own {
			continue
		}
		add(hdr, strings.Replace(ftr, own, other, 1), "footer naming another type ("+other+")")
		add(strings.Replace(hdr, own, other, 1), ftr, "header naming another type ("+other+")")
		add(strings.Replace(hdr, own, other, 1), strings.Replace(ftr, own, other, 1), "a consistent frame of another type ("+other+")")
	}
	out = append(out, hdr+body)
	why = append(why, "footer sentence missing")
	return
}

func init() {
	// a genuine message of one mode, armored; the genuine text must be accepted and every frame variant
	// refused by every armored entry point of that mode
	evaluators["armored_frames"] = evaluator{run: func(h *H, c Case) (fs []Failure) {
		wire, msg, mode := unhx(c.A["wire"]), unhx(c.A["msg"]), c.A["mode"]
		brand := c.A["brand"]
		ring := makeRing(c.A["keys"], "all", c.A["signers"])
		sring := sigRing{known: unblist(c.A["signers"])}
		at := map[string]saltpack.MessageType{"enc": saltpack.MessageTypeEncryption, "sc": saltpack.MessageTypeEncryption,
			"att": saltpack.MessageTypeAttachedSignature, "det": saltpack.MessageTypeDetachedSignature}[mode]
		vd := saltpack.CheckKnownMajorVersion
		type ep struct {
			name string
			f    func(t string) error
		}
		all := func(r io.Reader, e error) error {
			if e != nil {
				return e
			}
			_, e = io.ReadAll(r)
			return e
		}
		var eps []ep
		switch mode {
		case "enc":
			eps = []ep{{"Dearmor62DecryptOpen", func(t string) error { _, _, _, e := saltpack.Dearmor62DecryptOpen(vd, t, ring); return e }},
				{"NewDearmor62DecryptStream", func(t string) error {
					_, r, _, e := saltpack.NewDearmor62DecryptStream(vd, strings.NewReader(t), ring)
					return all(r, e)
				}}}
		case "sc":
			eps = []ep{{"Dearmor62SigncryptOpen", func(t string) error { _, _, _, e := saltpack.Dearmor62SigncryptOpen(t, ring, nil); return e }},
				{"NewDearmor62SigncryptOpenStream", func(t string) error {
					_, r, _, e := saltpack.NewDearmor62SigncryptOpenStream(strings.NewReader(t), ring, nil)
					return all(r, e)
				}}}
		case "att":
			eps = []ep{{"Dearmor62Verify", func(t string) error { _, _, _, e := saltpack.Dearmor62Verify(vd, t, sring); return e }},
				{"NewDearmor62VerifyStream", func(t string) error {
					_, r, _, e := saltpack.NewDearmor62VerifyStream(vd, strings.NewReader(t), sring)
					return all(r, e)
				}}}
		case "det":
			eps = []ep{{"Dearmor62VerifyDetached", func(t string) error { _, _, e := saltpack.Dearmor62VerifyDetached(vd, msg, t, sring); return e }},
				{"Dearmor62VerifyDetachedReader", func(t string) error {
					_, _, e := saltpack.Dearmor62VerifyDetachedReader(vd, iotestOneByte(msg), t, sring)
					return e
				}}}
		}
		txt, err := saltpack.Armor62Seal(wire, at, brand)
		if err != nil {
			return append(fs, Failure{Kind: "oracle", Key: "armored-frames-seal", Desc: err.Error()})
		}
		vars, why := frameVariants(h.rng, txt, brand, mode)
		for _, e := range eps {
			var ge error
			if pe := guard(func() error { ge = e.f(txt); return nil }); pe != nil {
				ge = pe
			}
			if ge != nil {
				fs = append(fs, Failure{Kind: "oracle", Key: "armored-genuine-rejected", Desc: fmt.Sprintf("%s rejects the genuine armored %s message: %v", e.name, mode, ge)})
				continue
			}
			for i, v := range vars {
				var ve error
				if pe := guard(func() error { ve = e.f(v); return nil }); pe != nil {
					ve = pe
				}
				if ve == nil {
					fs = append(fs, Failure{Kind: "oracle", Key: "armored-entry-accepts-bad-frame", Desc: fmt.Sprintf("%s accepts a %s message whose armor has a %s", e.name, mode, why[i])})
					break
				}
				if strings.HasPrefix(ve.Error(), "PANIC") {
					fs = append(fs, Failure{Kind: "oracle", Key: "armored-entry-panic", Desc: clip(ve.Error(), 200)})
					break
				}
			}
		}
		return
	}}
}

// genArmoredFrames: one armored_frames case per producer of the given modes
func genArmoredFrames(h *H, modes map[string]bool, rounds int) {
	for i := 0; i < rounds; i++ {
		for _, p := range h.producers() {
			if !modes[p.name] {
				continue
			}
			brand := []string{"", "KB", randBrand(h.rng, 1+h.rng.Intn(12))}[h.rng.Intn(3)]
			h.tag("armored-frames:" + p.name)
			h.Run(Case{Op: "armored_frames", A: map[string]string{"wire": hx(p.wire), "msg": hx(p.msg), "mode": p.name, "brand": brand,
				"keys": keysOf(p), "signers": signersOf(p)}})
		}
	}
}

func init() {
	// very many recipients (the msgpack array16/array32 boundary of the recipient list and of the
	// per-packet authenticator list): oracle only — seal, then the one recipient whose key we hold opens
	evaluators["seal_many"] = evaluator{run: func(h *H, c Case) (fs []Failure) {
		n, _ := strconv.Atoi(c.A["n"])
		v := parseVersion(c.A["v"])
		rsk := unhx(c.A["rsk"])
		pos := n / 2
		rcv := make([]saltpack.BoxPublicKey, n)
		seed := unhx(c.A["seed"])
		for i := range rcv {
			if i == pos {
				rcv[i] = boxPubFromBytes(boxPk(rsk), false)
				continue
			}
			// distinct filler public keys (never opened): 32 bytes derived from the index
			k := make([]byte, 32)
			copy(k, seed)
			k[28], k[29], k[30], k[31] = byte(i>>24), byte(i>>16), byte(i>>8), byte(i)
			rcv[i] = boxPubFromBytes(k, false)
		}
		msg := []byte("to very many recipients")
		var out []byte
		var err error
		if pe := guard(func() error {
			out, err = saltpack.Seal(v, msg, boxSecretFromBytes(unhx(c.A["sender"])), rcv)
			return nil
		}); pe != nil {
			err = pe
		}
		if err != nil {
			return append(fs, Failure{Kind: "oracle", Key: "seal-many-recipients-fails", Desc: fmt.Sprintf("Seal to %d distinct recipients (version %s): %v", n, c.A["v"], err)})
		}
		ring := &hRing{allSenders: true}
		ring.keys = append(ring.keys, boxSecretFromBytes(rsk))
		_, pt, e := saltpack.Open(saltpack.CheckKnownMajorVersion, out, ring)
		if e != nil || !bytes.Equal(pt, msg) {
			fs = append(fs, Failure{Kind: "oracle", Key: "seal-many-recipients-roundtrip", Desc: fmt.Sprintf("recipient %d of %d cannot open: %v", pos, n, e)})
		}
		return
	}}
}
