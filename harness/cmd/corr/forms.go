package main

import (
	"bytes"
	"fmt"

	"github.com/keybase/saltpack"
)

// armoredFormFailure: the armored all-at-once entry point, given the armored text of the very same
// bytes, must agree with the binary all-at-once entry point: it succeeds exactly when that one does,
// returns the same bytes, and returns nothing at all (no bytes, no key) together with an error.
// call returns (released bytes, whether a key/key-info that only a success may return was non-nil, error).
func armoredFormFailure(key string, input []byte, typ saltpack.MessageType, binErr error, binOut []byte, call func(txt string) ([]byte, bool, error)) *Failure {
	var out []byte
	var extra bool
	var e error
	if pe := guard(func() error {
		txt, ae := saltpack.Armor62Seal(input, typ, "VERIF")
		if ae != nil {
			return ae
		}
		out, extra, e = call(txt)
		return nil
	}); pe != nil {
		return &Failure{Kind: "oracle", Key: key + "-armored-panic", Desc: clip(pe.Error(), 300)}
	}
	switch {
	case e != nil && (len(out) != 0 || extra):
		return &Failure{Kind: "oracle", Key: key + "-armored-returns-with-error", Desc: fmt.Sprintf("the armored all-at-once form failed (%v) and still returned %d bytes (key/info returned: %v)", e, len(out), extra)}
	case (e == nil) != (binErr == nil):
		return &Failure{Kind: "oracle", Key: key + "-armored-form-disagrees", Desc: fmt.Sprintf("binary all-at-once form: err %v ; armored all-at-once form of the same bytes: err %v", binErr, e)}
	case e == nil && !bytes.Equal(out, binOut):
		return &Failure{Kind: "oracle", Key: key + "-armored-form-disagrees", Desc: fmt.Sprintf("binary form returns %d bytes, armored form of the same bytes %d", len(binOut), len(out))}
	}
	return nil
}
