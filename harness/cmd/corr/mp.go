package main

import (
	"encoding/binary"
	"errors"
)

// A tiny MessagePack tree codec for the harness's mutators and reference
// checks; independent of go-codec.  Width lets a mutator force a non-minimal
// header (0 = minimal).
type mpKind int

const (
	mpNil mpKind = iota
	mpBool
	mpInt
	mpBin
	mpStr
	mpArr
	mpRaw // anything else, kept verbatim
)

type mpNode struct {
	Kind  mpKind
	B     bool
	I     int64
	U     uint64 // used when I would overflow (uint64 > MaxInt64)
	Big   bool
	Bytes []byte
	Arr   []*mpNode
	Width int // forced header width class for bin/str/arr/int: 0 minimal, 1, 2, 4, 8
	Raw   []byte
}

var errShort = errors.New("short")

func mpParse(b []byte) (*mpNode, []byte, error) {
	if len(b) == 0 {
		return nil, nil, errShort
	}
	t := b[0]
	r := b[1:]
	need := func(n int) ([]byte, error) {
		if len(r) < n {
			return nil, errShort
		}
		x := r[:n]
		r = r[n:]
		return x, nil
	}
	lenN := func(w int) (int, error) {
		x, err := need(w)
		if err != nil {
			return 0, err
		}
		switch w {
		case 1:
			return int(x[0]), nil
		case 2:
			return int(binary.BigEndian.Uint16(x)), nil
		default:
			return int(binary.BigEndian.Uint32(x)), nil
		}
	}
	arr := func(n int) (*mpNode, []byte, error) {
		nd := &mpNode{Kind: mpArr}
		for i := 0; i < n; i++ {
			c, rest, err := mpParse(r)
			if err != nil {
				return nil, nil, err
			}
			nd.Arr = append(nd.Arr, c)
			r = rest
		}
		return nd, r, nil
	}
	switch {
	case t <= 0x7f:
		return &mpNode{Kind: mpInt, I: int64(t)}, r, nil
	case t >= 0x90 && t <= 0x9f:
		return arr(int(t & 0x0f))
	case t >= 0xa0 && t <= 0xbf:
		x, err := need(int(t & 0x1f))
		return &mpNode{Kind: mpStr, Bytes: x}, r, err
	case t == 0xc0:
		return &mpNode{Kind: mpNil}, r, nil
	case t == 0xc2, t == 0xc3:
		return &mpNode{Kind: mpBool, B: t == 0xc3}, r, nil
	case t == 0xc4, t == 0xc5, t == 0xc6:
		n, err := lenN(1 << (t - 0xc4))
		if err != nil {
			return nil, nil, err
		}
		x, err := need(n)
		return &mpNode{Kind: mpBin, Bytes: x}, r, err
	case t >= 0xcc && t <= 0xcf:
		x, err := need(1 << (t - 0xcc))
		if err != nil {
			return nil, nil, err
		}
		var u uint64
		for _, c := range x {
			u = u<<8 | uint64(c)
		}
		if u > 1<<63-1 {
			return &mpNode{Kind: mpInt, U: u, Big: true}, r, nil
		}
		return &mpNode{Kind: mpInt, I: int64(u)}, r, nil
	case t >= 0xd0 && t <= 0xd3:
		w := 1 << (t - 0xd0)
		x, err := need(w)
		if err != nil {
			return nil, nil, err
		}
		var u uint64
		for _, c := range x {
			u = u<<8 | uint64(c)
		}
		sh := uint(64 - 8*w)
		return &mpNode{Kind: mpInt, I: int64(u<<sh) >> sh}, r, nil
	case t == 0xd9, t == 0xda, t == 0xdb:
		n, err := lenN(1 << (t - 0xd9))
		if err != nil {
			return nil, nil, err
		}
		x, err := need(n)
		return &mpNode{Kind: mpStr, Bytes: x}, r, err
	case t == 0xdc, t == 0xdd:
		n, err := lenN(2 << (t - 0xdc))
		if err != nil {
			return nil, nil, err
		}
		return arr(n)
	case t >= 0xe0:
		return &mpNode{Kind: mpInt, I: int64(int8(t))}, r, nil
	}
	return nil, nil, errors.New("unsupported msgpack tag")
}

func putLen(out []byte, w int, n int) []byte {
	switch w {
	case 1:
		return append(out, byte(n))
	case 2:
		return append(out, byte(n>>8), byte(n))
	default:
		return append(out, byte(n>>24), byte(n>>16), byte(n>>8), byte(n))
	}
}

func (n *mpNode) enc(out []byte) []byte {
	switch n.Kind {
	case mpNil:
		return append(out, 0xc0)
	case mpBool:
		if n.B {
			return append(out, 0xc3)
		}
		return append(out, 0xc2)
	case mpInt:
		if n.Big {
			out = append(out, 0xcf)
			return binary.BigEndian.AppendUint64(out, n.U)
		}
		v := n.I
		w := n.Width
		if v >= 0 {
			switch {
			case w == 0 && v <= 127:
				return append(out, byte(v))
			case (w == 0 || w == 1) && v <= 255:
				return append(out, 0xcc, byte(v))
			case (w == 0 || w <= 2) && v <= 65535:
				return append(out, 0xcd, byte(v>>8), byte(v))
			case (w == 0 || w <= 4) && v <= 1<<32-1:
				return binary.BigEndian.AppendUint32(append(out, 0xce), uint32(v))
			default:
				return binary.BigEndian.AppendUint64(append(out, 0xcf), uint64(v))
			}
		}
		switch {
		case w == 0 && v >= -32:
			return append(out, byte(v))
		case (w == 0 || w == 1) && v >= -128:
			return append(out, 0xd0, byte(v))
		case (w == 0 || w <= 2) && v >= -32768:
			return append(out, 0xd1, byte(v>>8), byte(v))
		case (w == 0 || w <= 4) && v >= -(1<<31):
			return binary.BigEndian.AppendUint32(append(out, 0xd2), uint32(v))
		default:
			return binary.BigEndian.AppendUint64(append(out, 0xd3), uint64(v))
		}
	case mpBin:
		l := len(n.Bytes)
		w := n.Width
		switch {
		case (w == 0 || w == 1) && l < 256:
			out = append(out, 0xc4, byte(l))
		case (w == 0 || w <= 2) && l < 65536:
			out = putLen(append(out, 0xc5), 2, l)
		default:
			out = putLen(append(out, 0xc6), 4, l)
		}
		return append(out, n.Bytes...)
	case mpStr:
		l := len(n.Bytes)
		w := n.Width
		switch {
		case w == 0 && l < 32:
			out = append(out, 0xa0|byte(l))
		case (w == 0 || w == 1) && l < 256:
			out = append(out, 0xd9, byte(l))
		case (w == 0 || w <= 2) && l < 65536:
			out = putLen(append(out, 0xda), 2, l)
		default:
			out = putLen(append(out, 0xdb), 4, l)
		}
		return append(out, n.Bytes...)
	case mpArr:
		l := len(n.Arr)
		w := n.Width
		switch {
		case w == 0 && l < 16:
			out = append(out, 0x90|byte(l))
		case (w == 0 || w <= 2) && l < 65536:
			out = putLen(append(out, 0xdc), 2, l)
		default:
			out = putLen(append(out, 0xdd), 4, l)
		}
		for _, c := range n.Arr {
			out = c.enc(out)
		}
		return out
	case mpRaw:
		return append(out, n.Raw...)
	}
	return out
}

func mpEnc(n *mpNode) []byte { return n.enc(nil) }

func nBin(b []byte) *mpNode     { return &mpNode{Kind: mpBin, Bytes: b} }
func nStr(s string) *mpNode     { return &mpNode{Kind: mpStr, Bytes: []byte(s)} }
func nInt(i int64) *mpNode      { return &mpNode{Kind: mpInt, I: i} }
func nBool(b bool) *mpNode      { return &mpNode{Kind: mpBool, B: b} }
func nArr(c ...*mpNode) *mpNode { return &mpNode{Kind: mpArr, Arr: c} }
func nNil() *mpNode             { return &mpNode{Kind: mpNil} }

// splitObjects splits a wire message into its top-level objects (raw bytes each);
// trailing unparsable bytes are returned as the last element with ok=false.
func splitObjects(b []byte) (objs [][]byte, ok bool) {
	for len(b) > 0 {
		_, rest, err := mpParse(b)
		if err != nil {
			return append(objs, b), false
		}
		objs = append(objs, b[:len(b)-len(rest)])
		b = rest
	}
	return objs, true
}

func joinObjects(objs [][]byte) []byte {
	var out []byte
	for _, o := range objs {
		out = append(out, o...)
	}
	return out
}
