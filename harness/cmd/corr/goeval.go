package main

// goeval: a differential check of the TRANSLATOR (harness/cmd/gen/goast.go) and of the GO SEMANTICS of the deep
// embedding (coq/model/GoLang.v), which the source-tie theorems otherwise trust.  The function bodies translated
// from /repo on this run (coq/gen/GoAst.v) are run by the extracted evaluator (gorunner) with exactly the extern
// tables the theorems use, on the same arguments as the real compiled Go functions (hook VerifPure and the exported
// functions); the outcomes - returned bytes, error name, panic - must agree.

import (
	"bytes"
	"encoding/binary"
	"fmt"
	"os"
	"path/filepath"
	"strconv"
	"strings"

	"github.com/keybase/saltpack"
)

var goRunnerPath string // set by main from the model runner's path
var goRunner *Runner
var goRunnerMissing bool

func goRn() *Runner {
	if goRunner != nil || goRunnerMissing {
		return goRunner
	}
	if _, err := os.Stat(goRunnerPath); err != nil {
		goRunnerMissing = true
		return nil
	}
	goRunner = startRunner(goRunnerPath)
	return goRunner
}

func setGoRunnerPath(modelRunner string) {
	goRunnerPath = filepath.Join(filepath.Dir(modelRunner), "..", "gorunner", "gorunner")
}

func showErr(err error) string {
	if err == nil {
		return "n"
	}
	c := errClass(err)
	if i := strings.IndexByte(c, ':'); i >= 0 && !strings.HasPrefix(c, "PANIC") {
		c = c[:i]
	}
	return "e:" + c
}

// implGoEval runs the real function on the textual arguments of the case
func implGoEval(fn string, a []string) string {
	var v saltpack.Version
	var ints []uint64
	var sints []int64
	var bools []bool
	var bs [][]byte
	for _, x := range a {
		switch x[0] {
		case 'v':
			v = parseVersion(x[1:])
		case 'i':
			n, _ := strconv.ParseInt(x[1:], 10, 64)
			u, e := strconv.ParseUint(x[1:], 10, 64)
			if e != nil {
				u = uint64(n)
			} else if u > 1<<63-1 {
				n = int64(u)
			}
			ints = append(ints, u)
			sints = append(sints, n)
		case 't', 'f':
			bools = append(bools, x[0] == 't')
		case 'b':
			bs = append(bs, unhx(x[1:]))
		}
	}
	for len(bs) < 3 {
		bs = append(bs, nil)
	}
	for len(ints) < 2 {
		ints = append(ints, 0)
		sints = append(sints, 0)
	}
	for len(bools) < 1 {
		bools = append(bools, false)
	}
	out := ""
	pe := guard(func() error {
		switch fn {
		case "CheckKnownMajorVersion":
			out = "ret " + showErr(saltpack.CheckKnownMajorVersion(v))
		case "IsSaltpackBinarySlice":
			t, ver, err := saltpack.IsSaltpackBinarySlice(bs[0])
			out = fmt.Sprintf("ret i%d v%d.%d %s", int(t), ver.Major, ver.Minor, showErr(err))
		case "csprngUint32n":
			x, err := saltpack.VerifCsprngUint32n(bytes.NewReader(bs[0]), uint32(ints[0]))
			e := "n"
			if err != nil {
				e = "e:ErrRand" // whatever the source's error is: the extern table calls every failed draw ErrRand
			}
			out = fmt.Sprintf("ret i%d %s", x, e)
		case "checkChunkState":
			idx := make([]byte, 8)
			binary.BigEndian.PutUint64(idx, ints[1])
			_, err := saltpack.VerifPure(fn, v, uint64(sints[0]), bools[0], idx, nil, nil)
			out = "ret " + showErr(err)
		case "encryptionBlockNumber.check", "checkKnownVersion":
			_, err := saltpack.VerifPure(fn, v, ints[0], bools[0], nil, nil, nil)
			out = "ret " + showErr(err)
		default:
			b, _ := saltpack.VerifPure(fn, v, ints[0], bools[0], bs[0], bs[1], bs[2])
			out = "ret b" + hx(b)
		}
		return nil
	})
	if pe != nil {
		return "panic"
	}
	return out
}

func init() {
	evaluators["goeval"] = evaluator{run: func(h *H, c Case) (fs []Failure) {
		rn := goRn()
		if rn == nil {
			h.tag("goeval:skipped-no-evaluator")
			return
		}
		args := strings.Fields(c.A["args"])
		m := strings.Join(rn.Call("goeval", append([]string{c.A["fn"]}, args...)...), " ")
		m = strings.ReplaceAll(m, "s{}", "v0.0")
		got := implGoEval(c.A["fn"], args)
		switch {
		case strings.HasPrefix(m, "stuck:"):
			// the evaluator has no value here (a construct or an extern argument outside the embedding): no claim,
			// the theorems exclude such arguments by hypothesis; counted
			h.tag("goeval:stuck")
			h.res.Unmodelled++
		case m != got:
			fs = append(fs, Failure{Kind: "correspondence", Key: "go-semantics-" + c.A["fn"],
				Desc: fmt.Sprintf("%s(%s): evaluator of the translated body %.200s | compiled Go %.200s", c.A["fn"], c.A["args"], m, got)})
		}
		return
	}}
}

// ---------- generators ----------

func (h *H) geVersion() string {
	return []string{"v1.0", "v2.0", "v1.0", "v2.0", "v2.1", "v1.7", "v0.0", "v3.0", "v2.255", "v255.2"}[h.rng.Intn(10)]
}
func (h *H) geBool() string { return []string{"t", "f"}[h.rng.Intn(2)] }
func (h *H) geBytes(n int) string {
	if n == 0 {
		return "b-"
	}
	return "b" + hx(h.rng.Bytes(n))
}
func (h *H) geU64() string {
	switch h.rng.Intn(6) {
	case 0:
		return "i0"
	case 1:
		return "i" + strconv.FormatUint(uint64(h.rng.Intn(300)), 10)
	case 2:
		return "i18446744073709551615"
	case 3:
		return "i18446744073709551614"
	case 4:
		return "i" + strconv.FormatUint(uint64(1)<<uint(h.rng.Intn(64)), 10)
	}
	return "i" + strconv.FormatUint(h.rng.Next(), 10)
}
func (h *H) geLen() int {
	return []int{0, 1, 2, 31, 32, 33, 63, 64, 65, 100, 1000}[h.rng.Intn(11)]
}

// genGoEval runs n random argument tuples for each named translated function
func genGoEval(h *H, n int, fns ...string) {
	for _, fn := range fns {
		for i := 0; i < n; i++ {
			var a []string
			switch fn {
			case "checkChunkState":
				a = []string{h.geVersion(), "i" + strconv.Itoa([]int{0, 0, 1, 5, 1048576, 1048577}[h.rng.Intn(6)]), h.geU64(), h.geBool()}
			case "encryptionBlockNumber.check":
				a = []string{h.geU64()}
			case "checkKnownVersion", "CheckKnownMajorVersion":
				a = []string{h.geVersion()}
			case "IsSaltpackBinarySlice":
				// genuine header prefixes of every mode, cut and mutated
				ps := h.producers()
				w := append([]byte{}, ps[h.rng.Intn(len(ps))].wire...)
				if len(w) > 120 {
					w = w[:120]
				}
				switch h.rng.Intn(4) {
				case 0:
					w = w[:h.rng.Intn(len(w)+1)]
				case 1:
					w[h.rng.Intn(len(w))] ^= byte(1 << uint(h.rng.Intn(8)))
				case 2:
					w[h.rng.Intn(20)%len(w)] = byte(h.rng.Intn(256))
				}
				a = []string{"b" + hx(w)}
			case "csprngUint32n":
				nn := []uint64{1, 2, 3, 5, 6, 7, 10, 255, 256, 65537, 1 << 31, 1<<32 - 1, uint64(h.rng.Intn(1 << 30))}[h.rng.Intn(13)]
				a = []string{h.geBytes([]int{0, 3, 4, 7, 8, 40}[h.rng.Intn(6)]), "i" + strconv.FormatUint(nn, 10)}
			case "attachedSignatureInput":
				a = []string{h.geVersion(), h.geBytes(64), h.geBytes(h.geLen()), h.geU64(), h.geBool()}
			case "detachedSignatureInput":
				a = []string{h.geBytes(64), h.geBytes(h.geLen())}
			case "detachedSignatureInputFromHash":
				a = []string{h.geBytes([]int{64, 64, 0, 10, 128}[h.rng.Intn(5)])}
			case "computePayloadAuthenticator":
				a = []string{h.geBytes(32), h.geBytes(64)}
			case "computePayloadHash":
				a = []string{h.geVersion(), h.geBytes(64), h.geBytes(24), h.geBytes(h.geLen()), h.geBool()}
			case "computeSigncryptionSignatureInput":
				a = []string{h.geBytes(64), h.geBytes(24), h.geBool(), h.geBytes(h.geLen())}
			case "nonceForSenderKeySecretBox", "nonceForDerivedSharedKey":
				a = nil
			case "nonceForPayloadKeyBoxV2", "nonceForChunkSecretBox":
				a = []string{h.geU64()}
			case "nonceForPayloadKeyBox":
				a = []string{h.geVersion(), h.geU64()}
			case "nonceForMACKeyBoxV1":
				a = []string{h.geBytes(64)}
			case "nonceForMACKeyBoxV2", "nonceForChunkSigncryption":
				a = []string{h.geBytes(64), h.geBool(), h.geU64()}
			default:
				panic("genGoEval: " + fn)
			}
			h.tag("goeval:" + fn)
			h.Run(Case{Op: "goeval", A: map[string]string{"fn": fn, "args": strings.Join(a, " ")}})
		}
	}
}

// the translated functions each property's source-tie theorems rest on
var goEvalOf = map[string][]string{
	"C02": {"computePayloadHash", "computePayloadAuthenticator", "nonceForChunkSecretBox", "nonceForMACKeyBoxV1", "nonceForMACKeyBoxV2"},
	"C04": {"computeSigncryptionSignatureInput", "nonceForChunkSigncryption"},
	"C06": {"attachedSignatureInput"},
	"C07": {"detachedSignatureInput", "detachedSignatureInputFromHash"},
	"C12": {"nonceForPayloadKeyBox", "nonceForPayloadKeyBoxV2", "nonceForSenderKeySecretBox", "nonceForDerivedSharedKey"},
	"C15": {"checkChunkState"},
	"C16": {"IsSaltpackBinarySlice"},
	"C17": {"checkKnownVersion", "CheckKnownMajorVersion"},
	"C18": {"encryptionBlockNumber.check"},
	"C19": {"csprngUint32n"},
}

// wireGoEval appends the semantics/translator differential cases to the campaigns of the properties above
func wireGoEval() {
	for prop, fns := range goEvalOf {
		c, ok := campaigns[prop]
		if !ok {
			continue
		}
		inner, fns := c.gen, fns
		c.gen = func(h *H) {
			inner(h)
			n := 40
			if h.tier == "thorough" {
				n = 1500
			}
			genGoEval(h, n, fns...)
		}
		c.rule += " Also (tie of the translated functions): the bodies of " + strings.Join(fns, ", ") + " as translated from /repo on this run, evaluated by the extracted Go-embedding evaluator with the theorems' extern tables, against the compiled Go functions on random and boundary arguments."
		campaigns[prop] = c
	}
}
