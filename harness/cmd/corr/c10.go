package main

import (
	"bytes"
	"fmt"
	"io"
	"math/big"
	"strconv"
	"testing/iotest"

	"github.com/keybase/saltpack/encoding/basex"
)

type encInfo struct {
	name     string
	enc      *basex.Encoding
	alphabet string
	skip     string
	ibl      int
}

var encs = []encInfo{
	{"b62", basex.Base62StdEncoding, "0123456789ABCDEFGHIJKLMNOPQRSTUVWXYZabcdefghijklmnopqrstuvwxyz", "\t\n\r >", 32},
	{"b62s", basex.Base62StdEncodingStrict, "0123456789ABCDEFGHIJKLMNOPQRSTUVWXYZabcdefghijklmnopqrstuvwxyz", "", 32},
	{"b58", basex.Base58StdEncoding, "123456789ABCDEFGHJKLMNPQRSTUVWXYZabcdefghijkmnopqrstuvwxyz", "\t\n\r !\"#$%&'()*+,-./0:;<=>?@IOl[\\]^_`{|}~", 19},
	{"b58s", basex.Base58StdEncodingStrict, "123456789ABCDEFGHJKLMNPQRSTUVWXYZabcdefghijkmnopqrstuvwxyz", "", 19},
}

func encByName(n string) *encInfo {
	for i := range encs {
		if encs[i].name == n {
			return &encs[i]
		}
	}
	panic("enc " + n)
}

// exact integer ground truth, independent of both the model and the Go floats
func minChars(base, r int) int {
	target := new(big.Int).Exp(big.NewInt(256), big.NewInt(int64(r)), nil)
	pw := big.NewInt(1)
	c := 0
	for pw.Cmp(target) < 0 {
		pw.Mul(pw, big.NewInt(int64(base)))
		c++
	}
	return c
}
func maxBytes(base, c int) int {
	target := new(big.Int).Exp(big.NewInt(int64(base)), big.NewInt(int64(c)), nil)
	pw := big.NewInt(1)
	b := 0
	for {
		nx := new(big.Int).Mul(pw, big.NewInt(256))
		if nx.Cmp(target) > 0 {
			return b
		}
		pw = nx
		b++
	}
}

func (e *encInfo) obl() int { return minChars(len(e.alphabet), e.ibl) }

// reference block-wise positional base conversion, written from the armor spec
func (e *encInfo) refEncode(src []byte) string {
	var out []byte
	base := big.NewInt(int64(len(e.alphabet)))
	for len(src) > 0 {
		n := e.ibl
		if n > len(src) {
			n = len(src)
		}
		blk := src[:n]
		src = src[n:]
		c := minChars(len(e.alphabet), n)
		v := new(big.Int).SetBytes(blk)
		digs := make([]byte, c)
		for i := c - 1; i >= 0; i-- {
			q, r := new(big.Int).QuoRem(v, base, new(big.Int))
			digs[i] = e.alphabet[r.Int64()]
			v = q
		}
		out = append(out, digs...)
	}
	return string(out)
}

func bxErrClass(err error) string {
	switch e := err.(type) {
	case nil:
		return "ok"
	case basex.CorruptInputError:
		return "corrupt:" + strconv.Itoa(int(e))
	default:
		if err == basex.ErrInvalidEncodingLength {
			return "badlen"
		}
		return "other:" + err.Error()
	}
}

func init() {
	evaluators["bx_encode"] = evaluator{run: func(h *H, c Case) (fs []Failure) {
		e := encByName(c.A["enc"])
		data := unhx(c.A["data"])
		got := e.enc.EncodeToString(data)
		m := h.rn.Call("bx_encode", e.name, hx(data))
		if len(m) != 1 || string(unhx(m[0])) != got {
			fs = append(fs, Failure{Kind: "correspondence", Key: "bx_encode", Desc: fmt.Sprintf("model %v impl %q", m, got)})
		}
		if ref := e.refEncode(data); ref != got {
			fs = append(fs, Failure{Kind: "oracle", Key: "bx_encode-not-base-conversion", Desc: fmt.Sprintf("EncodeToString=%q, positional base conversion=%q", got, ref)})
		}
		if e.enc.EncodedLen(len(data)) != len(got) {
			fs = append(fs, Failure{Kind: "oracle", Key: "bx_encodedlen", Desc: fmt.Sprintf("EncodedLen(%d)=%d but output has %d chars", len(data), e.enc.EncodedLen(len(data)), len(got))})
		}
		back, err := e.enc.DecodeString(got)
		if err != nil || !bytes.Equal(back, data) {
			fs = append(fs, Failure{Kind: "oracle", Key: "bx_roundtrip", Desc: fmt.Sprintf("DecodeString(EncodeToString(x)) = %x, %v", back, err)})
		}
		// Encode into the front of a larger, reused destination (the documented contract: EncodedLen(len(src)) bytes of
		// dst are written): the same characters, nothing beyond them; Decode into a larger destination likewise
		for _, extra := range []int{1, 7, 64} {
			dst := bytes.Repeat([]byte{'#'}, len(got)+extra)
			if pe := guard(func() error { e.enc.Encode(dst, data); return nil }); pe != nil {
				fs = append(fs, Failure{Kind: "oracle", Key: "bx_encode-into-larger-buffer", Desc: fmt.Sprintf("Encode into a buffer %d bytes larger: %v", extra, pe)})
				break
			}
			if string(dst[:len(got)]) != got || !bytes.Equal(dst[len(got):], bytes.Repeat([]byte{'#'}, extra)) {
				fs = append(fs, Failure{Kind: "oracle", Key: "bx_encode-into-larger-buffer", Desc: fmt.Sprintf("Encode of %d bytes into a buffer %d bytes larger than EncodedLen wrote %q, want %q followed by untouched bytes", len(data), extra, clip(string(dst), 120), got)})
				break
			}
			out := bytes.Repeat([]byte{0xEE}, len(data)+extra)
			var n int
			var derr error
			if pe := guard(func() error { n, derr = e.enc.Decode(out, []byte(got)); return nil }); pe != nil || derr != nil || n != len(data) || !bytes.Equal(out[:n], data) || !bytes.Equal(out[n:], bytes.Repeat([]byte{0xEE}, extra)) {
				fs = append(fs, Failure{Kind: "oracle", Key: "bx_decode-into-larger-buffer", Desc: fmt.Sprintf("Decode of %q into a buffer %d bytes larger than needed: n=%d err=%v panic=%v out=%x", clip(got, 60), extra, n, derr, pe, out)})
				break
			}
		}
		return
	}, trivial: func(c Case) bool { return c.A["data"] == "-" }}

	evaluators["bx_decode"] = evaluator{run: func(h *H, c Case) (fs []Failure) {
		e := encByName(c.A["enc"])
		s := unhx(c.A["s"])
		var out []byte
		var err error
		func() {
			defer func() {
				if r := recover(); r != nil {
					err = fmt.Errorf("PANIC: %v", r)
				}
			}()
			out, err = e.enc.DecodeString(string(s))
		}()
		cls := bxErrClass(err)
		m := h.rn.Call("bx_decode", e.name, hx(s))
		if len(m) != 2 || m[0] != hx(out) || m[1] != cls {
			fs = append(fs, Failure{Kind: "correspondence", Key: "bx_decode", Desc: fmt.Sprintf("model %v impl %s %s", m, hx(out), cls)})
		}
		// property oracle: accepted only if canonical
		var stripped []byte
		foreign := false
		for _, b := range s {
			if bytes.IndexByte([]byte(e.alphabet), b) >= 0 {
				stripped = append(stripped, b)
			} else if bytes.IndexByte([]byte(e.skip), b) < 0 {
				foreign = true
			}
		}
		if err == nil {
			if foreign {
				fs = append(fs, Failure{Kind: "oracle", Key: "bx_decode-accepts-foreign", Desc: "foreign character accepted"})
			}
			if re := e.refEncode(out); re != string(stripped) {
				k := "bx_decode-accepts-noncanonical"
				fs = append(fs, Failure{Kind: "oracle", Key: k, Desc: fmt.Sprintf("DecodeString(%q) = %x, nil but that value encodes to %q", s, out, re)})
			}
		}
		if err != nil && len(cls) > 5 && cls[:5] == "PANIC" {
			fs = append(fs, Failure{Kind: "oracle", Key: "bx_decode-panic", Desc: cls})
		}
		// the streaming decoder agrees with the one-shot form under every read size
		// (every longer string; one in eight of the exhaustively enumerated short ones: each
		// decoder allocates its 600 KB of buffers)
		sum := 0
		for _, b := range s {
			sum += int(b)
		}
		if len(s) > 3 || sum%8 == 0 {
			fs = append(fs, bxStreamAgrees(e, s, out, err)...)
		}
		return
	}, trivial: func(c Case) bool { return c.A["s"] == "-" }}

	// large inputs (more than one internal buffer of 8192 blocks) through the streaming forms,
	// with caller buffers up to the whole message; oracle only (round trip and agreement)
	evaluators["bx_stream_big"] = evaluator{run: func(h *H, c Case) (fs []Failure) {
		e := encByName(c.A["enc"])
		var n int
		fmt.Sscan(c.A["n"], &n)
		r := &SplitMix{s: 5}
		for _, b := range unhx(c.A["seed"]) {
			r.s = r.s*131 + uint64(b)
		}
		data := r.Bytes(n)
		want := e.enc.EncodeToString(data)
		// streaming encoder with the given write size
		var ws int
		fmt.Sscan(c.A["w"], &ws)
		var buf bytes.Buffer
		w := basex.NewEncoder(e.enc, &buf)
		for off := 0; off < len(data); off += ws {
			end := off + ws
			if end > len(data) {
				end = len(data)
			}
			if _, err := w.Write(data[off:end]); err != nil {
				fs = append(fs, Failure{Kind: "oracle", Key: "bx_stream-encode-error", Desc: err.Error()})
			}
		}
		w.Close()
		if buf.String() != want {
			fs = append(fs, Failure{Kind: "oracle", Key: "bx_stream-encode-differs", Desc: fmt.Sprintf("streaming encoder (writes of %d) differs from EncodeToString on %d bytes", ws, n)})
		}
		if c.A["corrupt"] == "1" {
			bs := []byte(want)
			bs = append(bs, e.alphabet[len(e.alphabet)-1], e.alphabet[len(e.alphabet)-1])
			want = string(bs)
		}
		_, oneErr := e.enc.DecodeString(want)
		fs = append(fs, bxStreamAgrees(e, []byte(want), data, oneErr)...)
		return
	}}

	evaluators["bx_lens"] = evaluator{run: func(h *H, c Case) (fs []Failure) {
		e := encByName(c.A["enc"])
		n, _ := strconv.Atoi(c.A["n"])
		el, dl, vl := e.enc.EncodedLen(n), e.enc.DecodedLen(n), e.enc.IsValidEncodingLength(n)
		v := 0
		if vl {
			v = 1
		}
		got := fmt.Sprintf("%d %d %d", el, dl, v)
		m := h.rn.Call("bx_lens", e.name, strconv.Itoa(n))
		if fmt.Sprint(m) != fmt.Sprint([]string{strconv.Itoa(el), strconv.Itoa(dl), strconv.Itoa(v)}) {
			fs = append(fs, Failure{Kind: "correspondence", Key: "bx_lens", Desc: fmt.Sprintf("model %v impl %s", m, got)})
		}
		base, obl := len(e.alphabet), e.obl()
		xel := n / e.ibl * obl
		if n%e.ibl > 0 {
			xel += minChars(base, n%e.ibl)
		}
		xdl := n / obl * e.ibl
		if n%obl > 0 {
			xdl += maxBytes(base, n%obl)
		}
		xvl := n == obl || n == 0 || maxBytes(base, n) != maxBytes(base, n-1)
		if xel != el || xdl != dl || (n <= obl && xvl != vl) {
			fs = append(fs, Failure{Kind: "oracle", Key: "bx_lens-inexact", Desc: fmt.Sprintf("n=%d: Go %d %d %v, exact integer arithmetic %d %d %v", n, el, dl, vl, xel, xdl, xvl)})
		}
		return
	}}

	campaigns["C10"] = campaign{
		rule: "cases: (encoding, byte string) for encode; (encoding, character string) for decode; (encoding, n) for the length helpers. Exhaustive parts: all 1-byte blocks, all 2-byte blocks (thorough; 4096 sampled in quick), all strings of length <=2 (quick) / <=3 (thorough) over alphabet+2 foreign characters, every n in 0..4*blocklen+1 for the length helpers; plus all-zero/all-0xff/random blocks of every length 1..blocklen, random multi-block inputs, mutated encodings (digit bumps, truncations, inserted skip and foreign characters). A case is distinct by its (op,args) hash and non-trivial unless its input string is empty.",
		gen:  genC10,
	}
}

func genC10(h *H) {
	thorough := h.tier == "thorough"
	for _, en := range []string{"b62", "b62s"} {
		for i, n := range []int{262144, 300000, 262144 + 32, 600001} {
			if !thorough && i > 1 {
				continue
			}
			h.tag("big-stream")
			h.Run(Case{Op: "bx_stream_big", A: map[string]string{"enc": en, "n": strconv.Itoa(n), "w": strconv.Itoa([]int{1000, 262144, 77, 300000}[i]), "seed": hx(h.rng.Bytes(4)), "corrupt": strconv.Itoa(i % 2)}})
		}
	}
	for _, e := range encs {
		// length helpers, exhaustive over the domain the code evaluates the float formulas on (and beyond)
		for n := 0; n <= 4*e.obl()+1; n++ {
			h.Run(Case{Op: "bx_lens", A: map[string]string{"enc": e.name, "n": strconv.Itoa(n)}})
		}
		// all 1-byte blocks; 2-byte blocks exhaustive or sampled
		for b := 0; b < 256; b++ {
			h.Run(Case{Op: "bx_encode", A: map[string]string{"enc": e.name, "data": hx([]byte{byte(b)})}})
		}
		if thorough {
			for v := 0; v < 65536; v++ {
				h.Run(Case{Op: "bx_encode", A: map[string]string{"enc": e.name, "data": hx([]byte{byte(v >> 8), byte(v)})}})
			}
		} else {
			for i := 0; i < 1024; i++ {
				v := h.rng.Intn(65536)
				h.Run(Case{Op: "bx_encode", A: map[string]string{"enc": e.name, "data": hx([]byte{byte(v >> 8), byte(v)})}})
			}
		}
		// extreme and random blocks of every length, multi-block
		for l := 0; l <= 3*e.ibl+1; l++ {
			h.Run(Case{Op: "bx_encode", A: map[string]string{"enc": e.name, "data": hx(make([]byte, l))}})
			h.Run(Case{Op: "bx_encode", A: map[string]string{"enc": e.name, "data": hx(bytes.Repeat([]byte{0xff}, l))}})
			reps := 2
			if thorough {
				reps = 20
			}
			for k := 0; k < reps; k++ {
				h.Run(Case{Op: "bx_encode", A: map[string]string{"enc": e.name, "data": hx(h.content(l))}})
			}
		}
		// a full block without zero bytes followed by a block with z leading zero bytes, every z
		for z := 1; z <= e.ibl; z++ {
			d := bytes.Repeat([]byte{0xa7}, 2*e.ibl)
			copy(d[e.ibl:], make([]byte, z))
			h.tag("leading-zero-block")
			d = append(d, h.rng.Bytes(h.rng.Intn(5))...)
			h.Run(Case{Op: "bx_encode", A: map[string]string{"enc": e.name, "data": hx(d)}})
			h.Run(Case{Op: "bx_decode", A: map[string]string{"enc": e.name, "s": hx([]byte(e.enc.EncodeToString(d)))}})
		}
		// all character strings up to length 2 (3 in thorough) over alphabet + 2 foreign chars (+ skip chars if any)
		chars := []byte(e.alphabet)
		chars = append(chars, '!', 0x80)
		if e.skip != "" {
			chars = append(chars, ' ', '\n')
		}
		maxLen := 2
		if thorough {
			maxLen = 3
		}
		var rec func(prefix []byte)
		rec = func(prefix []byte) {
			h.Run(Case{Op: "bx_decode", A: map[string]string{"enc": e.name, "s": hx(prefix)}})
			if len(prefix) == maxLen {
				return
			}
			for _, ch := range chars {
				rec(append(append([]byte{}, prefix...), ch))
			}
		}
		rec(nil)
		// extreme strings of every block length and mutated genuine encodings
		top := e.alphabet[len(e.alphabet)-1]
		for l := 1; l <= 2*e.obl()+2; l++ {
			h.Run(Case{Op: "bx_decode", A: map[string]string{"enc": e.name, "s": hx(bytes.Repeat([]byte{top}, l))}})
			h.Run(Case{Op: "bx_decode", A: map[string]string{"enc": e.name, "s": hx(bytes.Repeat([]byte{e.alphabet[0]}, l))}})
			rs := make([]byte, l)
			for i := range rs {
				rs[i] = e.alphabet[h.rng.Intn(len(e.alphabet))]
			}
			h.Run(Case{Op: "bx_decode", A: map[string]string{"enc": e.name, "s": hx(rs)}})
		}
		nm := 300
		if thorough {
			nm = 5000
		}
		for i := 0; i < nm; i++ {
			data := h.rng.Bytes(1 + h.rng.Intn(3*e.ibl))
			if h.rng.Intn(4) == 0 {
				for j := range data {
					data[j] = 0xff
				}
			}
			s := []byte(e.enc.EncodeToString(data))
			switch h.rng.Intn(6) {
			case 0: // bump a digit
				p := h.rng.Intn(len(s))
				s[p] = e.alphabet[h.rng.Intn(len(e.alphabet))]
				h.tag("mut:digit")
			case 1: // truncate
				s = s[:h.rng.Intn(len(s)+1)]
				h.tag("mut:truncate")
			case 2: // insert skip-ish character
				p := h.rng.Intn(len(s) + 1)
				ins := [][]byte{{' '}, {'\n'}, {'>'}, {'\t'}, {'\r', '\n'}, {' ', ' ', '\n'}, {'>', ' '}}[h.rng.Intn(7)]
				s = append(s[:p], append(append([]byte{}, ins...), s[p:]...)...)
				h.tag("mut:skipchar")
			case 3: // insert foreign character
				p := h.rng.Intn(len(s) + 1)
				s = append(s[:p], append([]byte{'!'}, s[p:]...)...)
				h.tag("mut:foreign")
			case 4: // append extra digits
				for k := h.rng.Intn(3) + 1; k > 0; k-- {
					s = append(s, e.alphabet[h.rng.Intn(len(e.alphabet))])
				}
				h.tag("mut:append")
			default:
				h.tag("mut:none")
			}
			h.Run(Case{Op: "bx_decode", A: map[string]string{"enc": e.name, "s": hx(s)}})
		}
	}
	h.res.Exhaustive = false
	h.res.ExhNote = "exhaustive sub-domains: length helpers for every n in 0..4*blocklen+1 (all four encodings); all 1-byte blocks; all strings up to length 2 (quick) / 3 (thorough) over alphabet+foreign; 2-byte blocks exhaustive in thorough"
}

// bxStreamAgrees reads s through basex.NewDecoder with several caller buffer sizes and
// compares with the one-shot result (out, err): success iff success, same bytes; on a
// one-shot error the stream must end with a non-EOF error (never a clean end).
func bxStreamAgrees(e *encInfo, s, out []byte, oneErr error) (fs []Failure) {
	sizes := []int{1, 5, 33, 0}
	if len(s) > 100000 {
		sizes = []int{4096, 200000, 262144, 400000, 0}
	}
	for vi, sz := range append(append([]int{}, sizes...), sizes...) {
		// second pass: the same read sizes over an underlying reader that fragments its deliveries
		// (single bytes / small uneven segments, so that some deliveries are skip characters only)
		variant := 0
		if vi >= len(sizes) {
			variant = 1 + vi%2
			if len(s) > 100000 {
				continue
			}
		}
		var got []byte
		var err error
		func() {
			defer func() {
				if r := recover(); r != nil {
					err = fmt.Errorf("PANIC: %v", r)
				}
			}()
			var src io.Reader = bytes.NewReader(s)
			switch variant {
			case 1:
				src = iotest.OneByteReader(bytes.NewReader(s))
			case 2:
				src = &segReader{data: s, sizes: []int{1, 2, 1, 3, 7, 1, 1, 64}}
			}
			d := basex.NewDecoder(e.enc, src)
			if sz == 0 {
				got, err = io.ReadAll(d)
				return
			}
			p := make([]byte, sz)
			for it := 0; it < 10000000; it++ {
				n, e2 := d.Read(p)
				got = append(got, p[:n]...)
				if e2 == io.EOF {
					return
				}
				if e2 != nil {
					err = e2
					return
				}
			}
			err = fmt.Errorf("decoder does not terminate")
		}()
		switch {
		case oneErr == nil && (err != nil || !bytes.Equal(got, out)):
			fs = append(fs, Failure{Kind: "oracle", Key: "bx_stream-decode-differs", Desc: fmt.Sprintf("read size %d: streaming decoder gives %d bytes, err %v; DecodeString gives %d bytes", sz, len(got), err, len(out))})
		case oneErr != nil && err == nil:
			fs = append(fs, Failure{Kind: "oracle", Key: "bx_stream-decode-clean-end-on-bad-input", Desc: fmt.Sprintf("read size %d: streaming decoder ends cleanly after %d bytes on input DecodeString rejects (%v)", sz, len(got), oneErr)})
		}
		if len(fs) > 0 {
			return
		}
	}
	return
}

// segReader delivers its data in segments of the given sizes (cyclically)
type segReader struct {
	data  []byte
	sizes []int
	i     int
}

func (r *segReader) Read(p []byte) (int, error) {
	if len(r.data) == 0 {
		return 0, io.EOF
	}
	n := r.sizes[r.i%len(r.sizes)]
	r.i++
	if n > len(p) {
		n = len(p)
	}
	if n > len(r.data) {
		n = len(r.data)
	}
	copy(p, r.data[:n])
	r.data = r.data[n:]
	return n, nil
}
