package main

import (
	"crypto/ed25519"
	"strconv"

	"golang.org/x/crypto/nacl/secretbox"
)

// ---------- C02: encryption authenticity (mutations and insider forgeries) ----------

type encPair struct {
	v          string
	senderSk   []byte
	victimSk   []byte
	insiderSk  []byte
	rsk        [][]byte
	hide       []bool
	msgA, msgB []byte
	wireA      []byte
	wireB      []byte
}

func (h *H) makeEncPair(lenA, lenB int) encPair {
	p := encPair{v: []string{"1.0", "2.0"}[h.rng.Intn(2)], senderSk: h.randBoxSk(), victimSk: h.randBoxSk(), insiderSk: h.randBoxSk()}
	p.rsk = [][]byte{p.victimSk, p.insiderSk}
	p.hide = []bool{h.rng.Intn(2) == 0, h.rng.Intn(2) == 0}
	if h.rng.Intn(2) == 0 {
		p.rsk = append(p.rsk, h.randBoxSk())
		p.hide = append(p.hide, h.rng.Intn(2) == 0)
	}
	p.msgA, p.msgB = h.rng.Bytes(lenA), h.rng.Bytes(lenB)
	s := sealSpec{v: p.v, sender: p.senderSk, rsk: p.rsk, hide: p.hide}
	var err error
	p.wireA, _, err = implSeal(parseVersion(p.v), s.senderStr(), s.rcpts(), [][]byte{p.msgA}, sealRng(h.rng, len(p.rsk)), true)
	if err != nil {
		fatal("cannot seal genuine message: %v", err)
	}
	p.wireB, _, err = implSeal(parseVersion(p.v), s.senderStr(), s.rcpts(), [][]byte{p.msgB}, sealRng(h.rng, len(p.rsk)), true)
	if err != nil {
		fatal("cannot seal genuine message: %v", err)
	}
	return p
}

// insiderForgeEnc: a co-recipient (who knows the payload key and its own MAC key,
// but neither the sender's nor the victim's secret key) rewrites the message.
func insiderForgeEnc(r *SplitMix, p encPair) ([]byte, string) {
	o, err := refOpenEnc(p.wireA, p.insiderSk)
	if err != nil {
		precondition("insider cannot open the genuine message: %v", err)
		return p.wireA, "none"
	}
	objs, _ := splitObjects(p.wireA)
	hdrNode, _, _ := mpParse(objs[0])
	hh := sha(hdrNode.Bytes)
	nr := len(o.rcptIDs)
	major := o.major
	// the insider's own MAC key
	var myMac []byte
	if major == 1 {
		myMac = boxZeros(p.insiderSk, o.senderPk, k24(hh[:24]))
	} else {
		myMac = sha(boxZeros(p.insiderSk, o.senderPk, hashNonce(hh, false, uint64(o.rcptIndex))),
			boxZeros(p.insiderSk, o.ephPk, hashNonce(hh, true, uint64(o.rcptIndex))))[:32]
	}
	// genuine packets
	type pkt struct {
		final bool
		auths [][]byte
		ct    []byte
	}
	var pk []pkt
	for _, ob := range objs[1:] {
		n, _, _ := mpParse(ob)
		var q pkt
		var al *mpNode
		if major == 1 {
			al, q.ct = n.Arr[0], n.Arr[1].Bytes
			q.final = len(q.ct) == 16
		} else {
			q.final, al, q.ct = n.Arr[0].B, n.Arr[1], n.Arr[2].Bytes
		}
		for _, a := range al.Arr {
			q.auths = append(q.auths, a.Bytes)
		}
		pk = append(pk, q)
	}
	shapeAuths := func(al []*mpNode, victimIdx, shape int) []*mpNode {
		switch shape {
		case 1:
			return nil
		case 2:
			return al[:victimIdx]
		case 3:
			al[victimIdx] = nBin(nil)
		case 4:
			al[victimIdx] = nNil()
		case 5:
			al[victimIdx] = nBin(al[victimIdx].Bytes[:31])
		}
		return al
	}
	victimIdx := 0
	for i := range o.rcptIDs {
		if i != o.rcptIndex {
			victimIdx = i
			break
		}
	}
	shape := 0
	build := func(n int, chunk []byte, final bool, victimAuth []byte) []byte {
		nonce := idxNonce("saltpack_ploadsb", uint64(n))
		ct := secretbox.Seal(nil, chunk, nonce, k32(o.payloadKey))
		var ph []byte
		if major == 1 {
			ph = sha(hh, nonce[:], ct)
		} else {
			fb := []byte{0}
			if final {
				fb[0] = 1
			}
			ph = sha(hh, nonce[:], fb, ct)
		}
		var al []*mpNode
		for i := 0; i < nr; i++ {
			switch {
			case i == o.rcptIndex:
				al = append(al, nBin(hmac32(myMac, ph)))
			case victimAuth != nil:
				al = append(al, nBin(victimAuth))
			default:
				al = append(al, nBin(hmac32(myMac, ph))) // the insider's tag in every slot
			}
		}
		al = shapeAuths(al, victimIdx, shape)
		if major == 1 {
			return mpEnc(nArr(&mpNode{Kind: mpArr, Arr: al}, nBin(ct)))
		}
		return mpEnc(nArr(nBool(final), &mpNode{Kind: mpArr, Arr: al}, nBin(ct)))
	}
	shapeNames := []string{"", "/auths-empty", "/auths-cut-before-victim", "/victim-auth-empty", "/victim-auth-nil", "/victim-auth-31"}
	switch r.Intn(7) {
	case 5: // packets of every shape: empty/genuine/new chunks, either final flag, every authenticator-list shape
		shape = r.Intn(6)
		L := 1 + r.Intn(3)
		out := [][]byte{objs[0]}
		for n := 0; n < L; n++ {
			var ch []byte
			switch r.Intn(4) {
			case 0:
			case 1:
				ch = p.msgA
			case 2:
				ch = append([]byte{byte(r.Next())}, p.msgA...)
			default:
				ch = r.Bytes(1 + r.Intn(8))
			}
			final := n == L-1
			if r.Intn(4) == 0 {
				final = !final
			}
			var va []byte
			if r.Intn(2) == 0 {
				va = pk[r.Intn(len(pk))].auths[victimIdx]
			}
			out = append(out, build(n, ch, final, va))
		}
		return joinObjects(out), "insider-packet-shapes" + shapeNames[shape]
	case 6: // whole new message naming the honest sender with a shaped authenticator list
		shape = 1 + r.Intn(5)
		f := &refEnc{format: "saltpack", major: major, minor: 0, mode: 0, senderSk: p.insiderSk, ephSk: r.Bytes(32), payloadKey: r.Bytes(32),
			forgeSenderPk: o.senderPk, chunks: [][]byte{[]byte("I am the honest sender, honestly")},
			authShape: func(al []*mpNode) []*mpNode { return shapeAuths(al, victimIdx, shape) }}
		for i, sk := range p.rsk {
			f.rcpts = append(f.rcpts, refRcpt{pk: boxPk(sk), hide: p.hide[i]})
		}
		return f.seal(), "outsider-new-message-naming-sender" + shapeNames[shape]
	case 0: // rewrite the first chunk, keep the victim's stale authenticator
		ch := append([]byte("forged!"), r.Bytes(5)...)
		out := append([][]byte{objs[0]}, build(0, ch, pk[0].final && major == 2, pk[0].auths[victimIdx]))
		out = append(out, objs[2:]...)
		return joinObjects(out), "insider-rewrite-chunk"
	case 1: // rewrite with the insider's own tag in every slot
		ch := r.Bytes(9)
		out := append([][]byte{objs[0]}, build(0, ch, pk[0].final && major == 2, nil))
		out = append(out, objs[2:]...)
		return joinObjects(out), "insider-own-tag-everywhere"
	case 2: // append a forged extra chunk before the end / truncate by forging an early final packet
		out := [][]byte{objs[0]}
		out = append(out, build(0, []byte("short"), true, pk[0].auths[victimIdx]))
		if major == 1 {
			out = append(out, build(1, nil, true, pk[len(pk)-1].auths[victimIdx]))
		}
		return joinObjects(out), "insider-early-final"
	case 3: // whole new message naming the honest sender, built with the insider's own ephemeral key
		f := &refEnc{format: "saltpack", major: major, minor: 0, mode: 0, senderSk: p.insiderSk, ephSk: r.Bytes(32), payloadKey: r.Bytes(32),
			forgeSenderPk: o.senderPk, chunks: [][]byte{[]byte("I am the honest sender, honest")}}
		for i, sk := range p.rsk {
			f.rcpts = append(f.rcpts, refRcpt{pk: boxPk(sk), hide: p.hide[i]})
		}
		return f.seal(), "insider-new-message-naming-sender"
	default: // move the genuine second-message chunk into this message, re-encrypted under this payload key
		out := append([][]byte{objs[0]}, build(0, p.msgB, major == 2, pk[0].auths[victimIdx]))
		if major == 1 {
			out = append(out, objs[len(objs)-1])
		}
		return joinObjects(out), "insider-transplant-plaintext"
	}
}

func genOpenMutations(h *H, n int) {
	for i := 0; i < n; i++ {
		la, lb := 1+h.rng.Intn(300), h.rng.Intn(300)
		if i%9 == 0 {
			la = 0
		}
		p := h.makeEncPair(la, lb)
		var input []byte
		var mut string
		switch h.rng.Intn(10) {
		case 0:
			input, mut = p.wireA, "none"
		case 1, 2, 3:
			if la > 0 {
				input, mut = insiderForgeEnc(h.rng, p)
				break
			}
			fallthrough
		default:
			input, mut = mutateWire(h.rng, p.wireA, p.wireB)
		}
		h.tag("mut:" + mut)
		vd := "any"
		if h.rng.Intn(4) == 0 {
			vd = "single:" + []string{"1.0", "2.0"}[h.rng.Intn(2)]
		}
		senders := "all"
		if h.rng.Intn(3) == 0 {
			senders = blist([][]byte{boxPk(p.senderSk)})
		}
		h.Run(Case{Op: "open", A: map[string]string{"vd": vd, "keys": ringKeysStr([][]byte{p.victimSk}), "senders": senders, "input": hx(input),
			"buf": strconv.Itoa([]int{1, 2, 31, 32, 33, 43, 4096}[h.rng.Intn(7)]), "truth": blist([][]byte{p.msgA, p.msgB}), "honest": hx(boxPk(p.senderSk)), "mut": mut}})
	}
}

func genOpenBigMutations(h *H, n int) {
	for i := 0; i < n; i++ {
		p := h.makeEncPair(mib+3+h.rng.Intn(5), 10)
		for k := 0; k < 4; k++ {
			input, mut := mutateWire(h.rng, p.wireA, p.wireB)
			h.tag("mut-big:" + mut)
			h.Run(Case{Op: "open", A: map[string]string{"vd": "any", "keys": ringKeysStr([][]byte{p.victimSk}), "senders": "all", "input": hx(input),
				"buf": "4096", "truth": blist([][]byte{p.msgA, p.msgB}), "honest": hx(boxPk(p.senderSk)), "mut": mut}})
		}
		cuts, tags := boundaryCuts(p.wireA)
		for k, input := range cuts {
			h.tag("mut-big:" + tags[k])
			h.Run(Case{Op: "open", A: map[string]string{"vd": "any", "keys": ringKeysStr([][]byte{p.victimSk}), "senders": "all", "input": hx(input),
				"buf": "4096", "truth": blist([][]byte{p.msgA, p.msgB}), "honest": hx(boxPk(p.senderSk)), "mut": tags[k]}})
		}
	}
}

// ---------- C04: signcryption authenticity incl. insiders ----------

type scPair struct {
	signerSk   []byte
	victimSk   []byte
	insiderSk  []byte
	symK       []byte
	symID      []byte
	msgA, msgB []byte
	wireA      []byte
	wireB      []byte
}

func (h *H) makeScPair(lenA, lenB int) scPair { return h.makeScPairS(lenA, lenB, h.randSigKey()) }

// signer nil: an anonymous sender
func (h *H) makeScPairS(lenA, lenB int, signer []byte) scPair {
	p := scPair{signerSk: signer, victimSk: h.randBoxSk(), insiderSk: h.randBoxSk(), symK: h.rng.Bytes(32), symID: h.rng.Bytes(16)}
	s := scSpec{signer: p.signerSk, bsk: [][]byte{p.victimSk, p.insiderSk}, symk: [][]byte{p.symK}, symid: [][]byte{p.symID}}
	p.msgA, p.msgB = h.rng.Bytes(lenA), h.rng.Bytes(lenB)
	var err error
	p.wireA, _, err = implScSeal(s.signerStr(), s.boxes(), s.syms(), [][]byte{p.msgA}, sealRng(h.rng, 3), true)
	if err != nil {
		fatal("cannot signcrypt genuine message: %v", err)
	}
	p.wireB, _, err = implScSeal(s.signerStr(), s.boxes(), s.syms(), [][]byte{p.msgB}, sealRng(h.rng, 3), true)
	if err != nil {
		fatal("cannot signcrypt genuine message: %v", err)
	}
	return p
}

// insiderForgeSc: a co-recipient decrypts with the genuine payload key and re-encrypts
// modified plaintext, permuted chunk numbers or flipped final flags, reusing genuine signatures.
func insiderForgeSc(r *SplitMix, p scPair) ([]byte, string) {
	refHeaderOnly = true
	o, err := refOpenSc(p.wireA, p.insiderSk, nil, nil)
	refHeaderOnly = false
	if err != nil {
		precondition("insider cannot open the header of the genuine signcrypted message: %v", err)
		return p.wireA, "none"
	}
	objs, _ := splitObjects(p.wireA)
	hdrNode, _, _ := mpParse(objs[0])
	hh := sha(hdrNode.Bytes)
	type pkt struct {
		final bool
		sig   []byte
		chunk []byte
	}
	var pk []pkt
	for n, ob := range objs[1:] {
		nd, _, _ := mpParse(ob)
		final := nd.Arr[1].B
		att, ok := secretbox.Open(nil, nd.Arr[0].Bytes, hashNonce(hh, final, uint64(n)), k32(o.payloadKey))
		if !ok || len(att) < 64 {
			precondition("insider cannot open packet %d", n)
			return p.wireA, "none"
		}
		pk = append(pk, pkt{final, att[:64], att[64:]})
	}
	seal := func(n uint64, final bool, sig, chunk []byte) []byte {
		ct := secretbox.Seal(nil, append(append([]byte{}, sig...), chunk...), hashNonce(hh, final, n), k32(o.payloadKey))
		return mpEnc(nArr(nBin(ct), nBool(final)))
	}
	switch r.Intn(7) {
	case 5, 6: // packets of every shape: empty/genuine/new chunks, either final flag, genuine/zero/random/foreign signatures
		L := 1 + r.Intn(3)
		out := [][]byte{objs[0]}
		own := ed25519.NewKeyFromSeed(r.Bytes(32))
		for n := 0; n < L; n++ {
			var ch []byte
			switch r.Intn(4) {
			case 0:
			case 1:
				ch = pk[0].chunk
			case 2:
				ch = append([]byte{byte(r.Next())}, pk[0].chunk...)
			default:
				ch = r.Bytes(1 + r.Intn(8))
			}
			final := n == L-1
			if r.Intn(4) == 0 {
				final = !final
			}
			var sig []byte
			switch r.Intn(4) {
			case 0:
				sig = pk[r.Intn(len(pk))].sig
			case 1:
				sig = make([]byte, 64)
			case 2:
				sig = r.Bytes(64)
			default:
				sig = ed25519.Sign(own, scSigInput(hh, hashNonce(hh, final, uint64(n)), final, ch))
			}
			out = append(out, seal(uint64(n), final, sig, ch))
		}
		return joinObjects(out), "insider-packet-shapes"
	case 0: // modified plaintext, genuine signature
		ch := append([]byte("forged"), pk[0].chunk...)
		out := append([][]byte{objs[0]}, seal(0, pk[0].final, pk[0].sig, ch))
		out = append(out, objs[2:]...)
		return joinObjects(out), "insider-modified-plaintext"
	case 1: // flipped final flag, genuine signature and plaintext
		out := append([][]byte{objs[0]}, seal(0, !pk[0].final, pk[0].sig, pk[0].chunk))
		out = append(out, objs[2:]...)
		return joinObjects(out), "insider-flip-final"
	case 2: // genuine chunk re-encrypted under another chunk number
		out := [][]byte{objs[0], seal(0, false, pk[0].sig, pk[0].chunk), seal(1, true, pk[0].sig, pk[0].chunk)}
		return joinObjects(out), "insider-renumber-duplicate"
	case 3: // zero signature (as an anonymous sender would) under the named sender's header
		out := append([][]byte{objs[0]}, seal(0, pk[0].final, make([]byte, 64), []byte("unsigned")))
		return joinObjects(out), "insider-zero-signature"
	default: // new header naming the honest signer, genuine signatures transplanted
		f := &refSc{format: "saltpack", major: 2, minor: 0, mode: 3, signerSk: nil, ephSk: r.Bytes(32), payloadKey: r.Bytes(32),
			forgeSignerPk: p.signerSk[32:], chunks: [][]byte{pk[0].chunk},
			rcpts:  []refScRcpt{{boxPk: boxPk(p.victimSk)}, {boxPk: boxPk(p.insiderSk)}},
			sigFor: func(n int, final bool, nonce *[24]byte, chunk []byte, hh []byte) []byte { return pk[0].sig }}
		return f.seal(), "insider-new-header-transplanted-signature"
	}
}

// insiderSwapSc: a co-recipient re-encrypts two genuine non-final chunks (with their genuine
// signatures) at each other's position
func insiderSwapSc(p scPair) []byte {
	refHeaderOnly = true
	o, err := refOpenSc(p.wireA, p.insiderSk, nil, nil)
	refHeaderOnly = false
	if err != nil {
		precondition("insider cannot open the header of the genuine signcrypted message: %v", err)
		return p.wireA
	}
	objs, _ := splitObjects(p.wireA)
	hdrNode, _, _ := mpParse(objs[0])
	hh := sha(hdrNode.Bytes)
	var att [][]byte
	for n := 0; n < 2; n++ {
		nd, _, _ := mpParse(objs[1+n])
		a, ok := secretbox.Open(nil, nd.Arr[0].Bytes, hashNonce(hh, false, uint64(n)), k32(o.payloadKey))
		if !ok {
			precondition("insider cannot open packet %d", n)
			return p.wireA
		}
		att = append(att, a)
	}
	out := [][]byte{objs[0]}
	for n := 0; n < 2; n++ {
		ct := secretbox.Seal(nil, att[1-n], hashNonce(hh, false, uint64(n)), k32(o.payloadKey))
		out = append(out, mpEnc(nArr(nBin(ct), nBool(false))))
	}
	out = append(out, objs[3:]...)
	return joinObjects(out)
}

func genScOpenMutations(h *H, n int) {
	nbig := 1
	if h.tier == "thorough" {
		nbig = 3
	}
	for i := 0; i < nbig; i++ {
		p := h.makeScPair(2*mib+100+h.rng.Intn(50), 10)
		subs, stags := packetSubsequences(p.wireA)
		for k, input := range subs {
			if h.tier != "thorough" && k%3 != i%3 {
				continue
			}
			h.tag("mut-big:" + stags[k])
			h.Run(Case{Op: "sc_open", A: map[string]string{"keys": ringKeysStr([][]byte{p.victimSk}), "signers": blist([][]byte{p.signerSk[32:]}), "resolver": "none", "input": hx(input),
				"buf": "4096", "truth": blist([][]byte{p.msgA, p.msgB}), "honest": hx(p.signerSk[32:]), "mut": stags[k]}})
		}
		h.tag("mut:insider-swap-positions")
		h.Run(Case{Op: "sc_open", A: map[string]string{"keys": ringKeysStr([][]byte{p.victimSk}), "signers": blist([][]byte{p.signerSk[32:]}), "resolver": "none", "input": hx(insiderSwapSc(p)),
			"buf": "4096", "truth": blist([][]byte{p.msgA, p.msgB}), "honest": hx(p.signerSk[32:]), "mut": "insider-swap-positions"}})
		cuts, tags := boundaryCuts(p.wireA)
		for k, input := range cuts {
			h.tag("mut-big:" + tags[k])
			h.Run(Case{Op: "sc_open", A: map[string]string{"keys": ringKeysStr([][]byte{p.victimSk}), "signers": blist([][]byte{p.signerSk[32:]}), "resolver": "none", "input": hx(input),
				"buf": "4096", "truth": blist([][]byte{p.msgA, p.msgB}), "honest": hx(p.signerSk[32:]), "mut": tags[k]}})
		}
	}
	// anonymous senders: integrity against parties who lack the payload key. Whatever is accepted under
	// the header of a genuine anonymous message is a prefix of that message, clean end only at its end:
	// every proper packet subsequence of a three-packet message (last packet re-flagged final), and
	// key-less mutations of short ones
	for i := 0; i < nbig; i++ {
		p := h.makeScPairS(2*mib+100+h.rng.Intn(50), 10, nil)
		cuts, tags := packetSubsequences(p.wireA)
		for k, input := range cuts {
			h.tag("mut-big-anon:" + tags[k])
			h.Run(Case{Op: "sc_open", A: map[string]string{"keys": ringKeysStr([][]byte{p.victimSk}), "signers": "_", "resolver": "none", "input": hx(input),
				"buf": "4096", "truth": blist([][]byte{p.msgA, p.msgB}), "honest": "anon", "mut": tags[k]}})
		}
	}
	for i := 0; i < n/8; i++ {
		p := h.makeScPairS(1+h.rng.Intn(300), h.rng.Intn(300), nil)
		input, mut := mutateWire(h.rng, p.wireA, p.wireB)
		h.tag("mut-anon:" + mut)
		keys, resolver := ringKeysStr([][]byte{p.victimSk}), "none"
		if h.rng.Intn(4) == 0 {
			keys, resolver = "_", hx(p.symID)+":"+hx(p.symK)
		}
		h.Run(Case{Op: "sc_open", A: map[string]string{"keys": keys, "signers": "_", "resolver": resolver, "input": hx(input),
			"buf": strconv.Itoa([]int{1, 2, 31, 32, 33, 43, 4096}[h.rng.Intn(7)]), "truth": blist([][]byte{p.msgA, p.msgB}), "honest": "anon", "mut": mut}})
	}
	for i := 0; i < n; i++ {
		la, lb := 1+h.rng.Intn(300), h.rng.Intn(300)
		p := h.makeScPair(la, lb)
		var input []byte
		var mut string
		switch h.rng.Intn(10) {
		case 0:
			input, mut = p.wireA, "none"
		case 1, 2, 3, 4:
			input, mut = insiderForgeSc(h.rng, p)
		default:
			input, mut = mutateWire(h.rng, p.wireA, p.wireB)
		}
		h.tag("mut:" + mut)
		keys, resolver := ringKeysStr([][]byte{p.victimSk}), "none"
		if h.rng.Intn(4) == 0 {
			keys, resolver = "_", hx(p.symID)+":"+hx(p.symK)
		}
		h.Run(Case{Op: "sc_open", A: map[string]string{"keys": keys, "signers": blist([][]byte{p.signerSk[32:]}), "resolver": resolver, "input": hx(input),
			"buf": strconv.Itoa([]int{1, 2, 31, 32, 33, 43, 4096}[h.rng.Intn(7)]), "truth": blist([][]byte{p.msgA, p.msgB}), "honest": hx(p.signerSk[32:]), "mut": mut}})
	}
}

func init() {
	campaigns["C02"] = campaign{
		rule: "cases: byte strings fed to NewDecryptStream/Open under the victim recipient's keyring, derived from two genuine messages by the same honest sender to the same recipients (V1/V2, 2-3 recipients, visible/hidden) by structure-aware mutation (bit flips, truncations at random offsets and packet boundaries, packet swap/dup/delete/insert, splices between the two messages, header edits with re-encoding, non-minimal re-encodings, final-flag flips, authenticator-list shrinking, trailing garbage) and by spec-aware insider forgeries built by a co-recipient with the genuine payload key and its own MAC key (rewritten chunk with stale victim authenticator, own tag in every slot, forged early final packet, transplanted plaintext, whole new message naming the honest sender). Observables compared with the model: key attribution, released bytes, terminating error class; ground truth: bytes released under the honest sender's name are a prefix of one of the two plaintexts and the stream ends cleanly only at its end. Trivial: empty input.",
		gen: func(h *H) {
			n := 500
			if h.tier == "thorough" {
				n = 12000
			}
			genOpenMutations(h, n)
			nb := 1
			if h.tier == "thorough" {
				nb = 6
			}
			genOpenBigMutations(h, nb)
		},
	}
	campaigns["C04"] = campaign{
		rule: "cases: byte strings fed to NewSigncryptOpenStream/SigncryptOpen under the victim's keyring (box key or resolver), derived from two genuine messages by the same honest signer by structure-aware mutation as in C02 and by insider forgeries of a co-recipient who decrypts with the genuine payload key and re-encrypts modified plaintext, flipped final flags, renumbered/duplicated chunks, zero signatures, or a new header naming the honest signer with transplanted genuine signatures. Ground truth: bytes released under the honest signer's name are a prefix of one of the two plaintexts, clean end only at its end. Anonymous senders: key-less mutations of genuine anonymous messages and every proper packet subsequence of a three-packet message with the last packet re-flagged final; whatever is accepted is a prefix of the genuine plaintext.",
		gen: func(h *H) {
			n := 400
			if h.tier == "thorough" {
				n = 10000
			}
			genScOpenMutations(h, n)
		},
	}
}
