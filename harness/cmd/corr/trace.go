package main

import (
	"bytes"
	"encoding/binary"
	"fmt"
	"io"
	"strconv"
	"strings"

	"github.com/keybase/saltpack"
	"github.com/keybase/saltpack/basic"
)

// recording wrappers around basic keys: every call on a long-term key object is logged

type keyLog struct{ events []string }

func (l *keyLog) add(parts ...string) { l.events = append(l.events, strings.Join(parts, ":")) }

type recBoxSecret struct {
	basic.SecretKey
	log *keyLog
}

func (k recBoxSecret) me() string { return hx(k.SecretKey.GetPublicKey().ToKID()) }

func (k recBoxSecret) Box(receiver saltpack.BoxPublicKey, nonce saltpack.Nonce, msg []byte) []byte {
	k.log.add("box", k.me(), hx(receiver.ToKID()), hx(nonce[:]), hx(msg))
	return k.SecretKey.Box(receiver, nonce, msg)
}
func (k recBoxSecret) Unbox(sender saltpack.BoxPublicKey, nonce saltpack.Nonce, msg []byte) ([]byte, error) {
	k.log.add("unbox", k.me(), hx(sender.ToKID()), hx(nonce[:]), hx(msg))
	return k.SecretKey.Unbox(sender, nonce, msg)
}
func (k recBoxSecret) Precompute(peer saltpack.BoxPublicKey) saltpack.BoxPrecomputedSharedKey {
	return recShared{k.SecretKey.Precompute(peer), k.me(), hx(peer.ToKID()), k.log}
}

type recShared struct {
	inner    saltpack.BoxPrecomputedSharedKey
	me, peer string
	log      *keyLog
}

func (s recShared) Unbox(nonce saltpack.Nonce, msg []byte) ([]byte, error) {
	s.log.add("preunbox", s.me, s.peer, hx(nonce[:]), hx(msg))
	return s.inner.Unbox(nonce, msg)
}
func (s recShared) Box(nonce saltpack.Nonce, msg []byte) []byte {
	s.log.add("prebox", s.me, s.peer, hx(nonce[:]), hx(msg))
	return s.inner.Box(nonce, msg)
}

type recSigner struct {
	basic.SigningSecretKey
	log *keyLog
}

func (k recSigner) Sign(msg []byte) ([]byte, error) {
	k.log.add("sign", hx(k.SigningSecretKey.GetPublicKey().ToKID()), hx(msg))
	return k.SigningSecretKey.Sign(msg)
}

// recRing is hRing with recording secret keys
type recRing struct {
	*hRing
	log *keyLog
}

func (r recRing) LookupBoxSecretKey(kids [][]byte) (int, saltpack.BoxSecretKey) {
	i, k := r.hRing.LookupBoxSecretKey(kids)
	if k == nil {
		return i, nil
	}
	return i, recBoxSecret{k.(basic.SecretKey), r.log}
}
func (r recRing) GetAllBoxSecretKeys() []saltpack.BoxSecretKey {
	var out []saltpack.BoxSecretKey
	for _, k := range r.hRing.keys {
		out = append(out, recBoxSecret{k, r.log})
	}
	return out
}

var zeros32 = make([]byte, 32)

// the C12 predicate on recorded calls, checked directly on what the implementation did
func tracePredicate(events []string) string {
	for _, e := range events {
		p := strings.Split(e, ":")
		switch p[0] {
		case "unbox", "preunbox":
			n := unhx(p[3])
			ok := string(n) == "saltpack_payload_key_box" || (len(n) == 24 && string(n[:16]) == "saltpack_recipsb")
			if !ok {
				return fmt.Sprintf("long-term key %s opened a box under nonce %q", p[1][:8], n)
			}
		case "box":
			if !bytes.Equal(unhx(p[4]), zeros32) {
				return fmt.Sprintf("long-term key %s boxed a message other than 32 zero bytes", p[1][:8])
			}
		case "sign":
			m := unhx(p[2])
			ok := (len(m) == 28+64 && (bytes.HasPrefix(m, []byte("saltpack attached signature\x00")) || bytes.HasPrefix(m, []byte("saltpack detached signature\x00")))) ||
				(len(m) == 29+153 && bytes.HasPrefix(m, []byte("saltpack encrypted signature\x00")))
			if !ok {
				return fmt.Sprintf("signing key signed %d bytes starting %q", len(m), clip(string(m), 30))
			}
		}
	}
	return ""
}

func init() {
	evaluators["trace_open"] = evaluator{run: func(h *H, c Case) (fs []Failure) {
		log := &keyLog{}
		ring := recRing{makeRing(c.A["keys"], c.A["senders"], ""), log}
		input := unhx(c.A["input"])
		guard(func() error {
			_, st, err := saltpack.NewDecryptStream(parseValidator(c.A["vd"]), bytes.NewReader(input), ring)
			if err == nil {
				readAllChunked(st, 4096)
			}
			return nil
		})
		got := strings.Join(log.events, " ")
		if got == "" {
			got = "_"
		}
		if c.A["vd"] != "all" { // (the model's validators are the library's two; an all-admitting application validator is oracle-only)
			m := strings.Join(h.rn.Call("open_events", c.A["vd"], c.A["keys"], c.A["senders"], hx(input)), " ")
			if m != got {
				// a header in a MessagePack shape the model does not give a meaning to (Unmodelled, e.g. an array
				// where go-codec leniently reads a byte string) has no model trace; the predicate below still runs
				if mo := strings.Join(h.rn.Call("open", c.A["vd"], c.A["keys"], c.A["senders"], hx(input)), " "); strings.Contains(mo, "Unmodelled") {
					h.res.Unmodelled++
				} else {
					fs = append(fs, Failure{Kind: "correspondence", Key: "key-trace-open", Desc: fmt.Sprintf("model %.300s | impl %.300s", m, got)})
				}
			}
		}
		if bad := tracePredicate(log.events); bad != "" {
			fs = append(fs, Failure{Kind: "oracle", Key: "long-term-key-abused", Desc: bad + " (mutation " + c.A["mut"] + ")"})
		}
		return
	}, trivial: func(c Case) bool { return c.A["input"] == "-" }}

	evaluators["trace_sc_open"] = evaluator{run: func(h *H, c Case) (fs []Failure) {
		log := &keyLog{}
		ring := recRing{makeRing(c.A["keys"], "all", c.A["signers"]), log}
		input := unhx(c.A["input"])
		guard(func() error {
			_, st, err := saltpack.NewSigncryptOpenStream(bytes.NewReader(input), ring, nil)
			if err == nil {
				readAllChunked(st, 4096)
			}
			return nil
		})
		got := strings.Join(log.events, " ")
		if got == "" {
			got = "_"
		}
		m := strings.Join(h.rn.Call("sc_open_events", c.A["keys"], hx(input)), " ")
		if m != got {
			if mo := strings.Join(h.rn.Call("sc_open", c.A["keys"], c.A["signers"], "none", hx(input)), " "); strings.Contains(mo, "Unmodelled") {
				h.res.Unmodelled++
			} else {
				fs = append(fs, Failure{Kind: "correspondence", Key: "key-trace-sc-open", Desc: fmt.Sprintf("model %.300s | impl %.300s", m, got)})
			}
		}
		if bad := tracePredicate(log.events); bad != "" {
			fs = append(fs, Failure{Kind: "oracle", Key: "long-term-key-abused", Desc: bad + " (mutation " + c.A["mut"] + ")"})
		}
		return
	}, trivial: func(c Case) bool { return c.A["input"] == "-" }}

	evaluators["trace_send"] = evaluator{run: func(h *H, c Case) (fs []Failure) {
		log := &keyLog{}
		pieces := unblist(c.A["pieces"])
		msg := bytes.Join(pieces, nil)
		rng := unhx(c.A["rng"])
		switch c.A["kind"] {
		case "att", "det":
			key := recSigner{sigSecretFromBytes(unhx(c.A["sk"])), log}
			withRand(rng, func() {
				guard(func() error {
					if c.A["kind"] == "att" {
						saltpack.Sign(parseVersion(c.A["v"]), msg, key)
					} else {
						saltpack.SignDetached(parseVersion(c.A["v"]), msg, key)
					}
					return nil
				})
			})
			got := strings.Join(log.events, " ")
			if got == "" {
				got = "_"
			}
			m := strings.Join(h.rn.Call("sign_events", c.A["kind"], c.A["v"], c.A["sk"], c.A["pieces"], hx(rng)), " ")
			if m != got {
				fs = append(fs, Failure{Kind: "correspondence", Key: "key-trace-sign", Desc: fmt.Sprintf("model %.200s | impl %.200s", m, got)})
			}
		case "sc":
			key := recSigner{sigSecretFromBytes(unhx(c.A["sk"])), log}
			rcpt := []saltpack.BoxPublicKey{boxPubFromBytes(boxPk(bytes.Repeat([]byte{5}, 32)), false)}
			var wire []byte
			withRand(rng, func() {
				guard(func() error { wire, _ = saltpack.SigncryptSeal(msg, &hRing{}, key, rcpt, nil); return nil })
			})
			// every signed string is the third domain string, the hash of the emitted header, the
			// packet nonce, the final flag and the SHA-512 of the chunk — recomputed here from the wire
			if objs, ok := splitObjects(wire); ok && len(objs) >= 2 {
				if hn, _, err := mpParse(objs[0]); err == nil {
					hh := sha(hn.Bytes)
					var chunks [][]byte
					for off := 0; off < len(msg) || off == 0; off += mib {
						end := off + mib
						if end > len(msg) {
							end = len(msg)
						}
						chunks = append(chunks, msg[off:end])
						if end == len(msg) {
							break
						}
					}
					if len(msg) > 0 && len(msg)%mib == 0 {
						chunks = append(chunks, nil)
					}
					for i, e := range log.events {
						p := strings.Split(e, ":")
						if p[0] != "sign" || i >= len(chunks) {
							continue
						}
						final := i == len(chunks)-1
						want := scSigInput(hh, hashNonce(hh, final, uint64(i)), final, chunks[i])
						if !bytes.Equal(unhx(p[2]), want) {
							fs = append(fs, Failure{Kind: "oracle", Key: "signed-input-not-hash-of-chunk", Desc: fmt.Sprintf("signcryption Sign call %d (chunk of %d bytes): the signed string is not domain || header hash || nonce || final || SHA-512(chunk)", i+1, len(chunks[i]))})
							break
						}
					}
				}
			}
		case "enc":
			sender := recBoxSecret{boxSecretFromBytes(unhx(c.A["sk"])), log}
			rcpts, _, _ := parseRcpts(c.A["rcpts"])
			withRand(rng, func() {
				guard(func() error { saltpack.Seal(parseVersion(c.A["v"]), msg, sender, rcpts); return nil })
			})
		}
		if len(log.events) == 0 && c.A["expect_calls"] == "1" {
			fs = append(fs, Failure{Kind: "oracle", Key: "key-trace-empty", Desc: "no key call recorded for a successful send"})
		}
		if bad := tracePredicate(log.events); bad != "" {
			fs = append(fs, Failure{Kind: "oracle", Key: "long-term-key-abused", Desc: bad})
		}
		return
	}}

	// operation sequences on the streaming signers (Writes, Close, and further Write/Close calls
	// after Close): every string the signing key is asked to sign must be a domain-separation
	// string followed by a SHA-512 digest of material that STARTS WITH THE HASH OF THE HEADER
	// THIS STREAM EMITTED (the header carries the fresh nonce)
	evaluators["trace_stream"] = evaluator{run: func(h *H, c Case) (fs []Failure) {
		log := &keyLog{}
		key := recSigner{sigSecretFromBytes(unhx(c.A["sk"])), log}
		ops := strings.Split(c.A["ops"], ",")
		v := parseVersion(c.A["v"])
		var out bytes.Buffer
		var written [][]byte // concatenation of the Write payloads after each Write
		var cur []byte
		type call struct{ nWrites int }
		var calls []call
		withRand(unhx(c.A["rng"]), func() {
			guard(func() error {
				var w io.WriteCloser
				var err error
				if c.A["kind"] == "att" {
					w, err = saltpack.NewSignStream(v, &out, key)
				} else {
					w, err = saltpack.NewSignDetachedStream(v, &out, key)
				}
				if err != nil {
					return nil
				}
				for _, op := range ops {
					before := len(log.events)
					if op == "C" {
						w.Close()
					} else {
						p := unhx(op[1:])
						w.Write(p)
						cur = append(append([]byte{}, cur...), p...)
						written = append(written, cur)
					}
					for i := before; i < len(log.events); i++ {
						calls = append(calls, call{len(written)})
					}
				}
				return nil
			})
		})
		for len(calls) < len(log.events) { // events of an operation that panicked
			calls = append(calls, call{len(written)})
		}
		if len(log.events) == 0 {
			return
		}
		objs, _ := splitObjects(out.Bytes())
		if len(objs) == 0 {
			return append(fs, Failure{Kind: "oracle", Key: "trace-stream-no-header", Desc: "the signing key was used but no header was emitted"})
		}
		hn, _, err := mpParse(objs[0])
		if err != nil {
			return append(fs, Failure{Kind: "oracle", Key: "trace-stream-no-header", Desc: "emitted header does not parse"})
		}
		hh := sha(hn.Bytes)
		for i, e := range log.events {
			p := strings.Split(e, ":")
			m := unhx(p[2])
			ok := false
			var cands [][]byte
			cands = append(cands, nil)
			for j := 0; j < calls[i].nWrites; j++ {
				cands = append(cands, written[j])
			}
			if c.A["kind"] == "det" {
				for _, w := range cands {
					if bytes.Equal(m, append([]byte("saltpack detached signature\x00"), sha(hh, w)...)) {
						ok = true
					}
				}
			} else {
				for seq := 0; seq <= len(log.events) && !ok; seq++ {
					var sq [8]byte
					binary.BigEndian.PutUint64(sq[:], uint64(seq))
					for _, w := range cands {
						for _, fb := range [][]byte{nil, {0}, {1}} {
							if (v.Major == 1) != (fb == nil) {
								continue
							}
							// the data written between any two Write boundaries (earlier blocks were signed before)
							starts := []int{0}
							for j := 0; j < calls[i].nWrites; j++ {
								if len(written[j]) <= len(w) {
									starts = append(starts, len(written[j]))
								}
							}
							for _, st := range starts {
								if bytes.Equal(m, append([]byte("saltpack attached signature\x00"), sha(hh, sq[:], fb, w[st:])...)) {
									ok = true
								}
							}
						}
					}
				}
			}
			if !ok {
				fs = append(fs, Failure{Kind: "oracle", Key: "signed-input-not-bound-to-header", Desc: fmt.Sprintf("Sign call %d of the %s stream (ops %s): the signed digest is not over the hash of the header this stream emitted followed by data written so far", i+1, c.A["kind"], clip(c.A["ops"], 60))})
				break
			}
		}
		if bad := tracePredicate(log.events); bad != "" {
			fs = append(fs, Failure{Kind: "oracle", Key: "long-term-key-abused", Desc: bad})
		}
		return
	}}

	campaigns["C12"] = campaign{
		rule: "cases: the harness supplies BoxSecretKey / BoxPrecomputedSharedKey / SigningSecretKey wrappers that record every call (operation, peer, nonce, message). Receivers: genuine, mutated, spliced and insider-forged encryption and signcryption messages (as C02/C04) opened with recording keyrings of 1-3 keys, visible and hidden recipients; senders: Sign/SignDetached/SigncryptSeal/Seal with recording long-term keys, all versions, lengths 0..3000 and 1 MiB+1. The recorded call sequence must equal the model's trace (coq/model/KeyTrace.v) and satisfy the predicate directly: every Unbox nonce is the V1 constant or 'saltpack_recipsb'+index, every Box message is 32 zero bytes, every signed string is a domain-separation string plus fixed-length hash material. Also headers naming unknown major versions under an all-admitting application validator (predicate only).",
		gen: func(h *H) {
			n := 300
			if h.tier == "thorough" {
				n = 8000
			}
			for i := 0; i < n; i++ {
				p := h.makeEncPair(1+h.rng.Intn(200), h.rng.Intn(200))
				var input []byte
				var mut string
				switch h.rng.Intn(8) {
				case 0:
					input, mut = p.wireA, "none"
				case 1, 2:
					input, mut = insiderForgeEnc(h.rng, p)
				default:
					input, mut = mutateWire(h.rng, p.wireA, p.wireB)
				}
				keys := [][]byte{p.victimSk}
				if h.rng.Intn(3) == 0 {
					keys = [][]byte{h.randBoxSk(), p.victimSk, h.randBoxSk()}
				}
				if h.rng.Intn(6) == 0 {
					keys = [][]byte{h.randBoxSk()}
				}
				h.tag("mut:" + mut)
				h.Run(Case{Op: "trace_open", A: map[string]string{"vd": "any", "keys": ringKeysStr(keys), "senders": "all", "input": hx(input), "mut": mut}})
			}
			// headers naming a major version the library does not know, under an application validator that
			// admits every version (the policy is the caller's): whatever the receiver then does with its
			// long-term key must still use a saltpack payload-key nonce (stopping, even by a panic, is fine)
			for _, mj := range []int{0, 3, 4, 9, 255} {
				for _, hide := range []bool{false, true} {
					rsk := h.randBoxSk()
					pe := &refEnc{format: "saltpack", major: mj, minor: 0, mode: 0, senderSk: h.randBoxSk(), ephSk: h.randBoxSk(), payloadKey: h.rng.Bytes(32),
						rcpts: []refRcpt{{pk: boxPk(rsk), hide: hide}}, chunks: [][]byte{[]byte("z")}}
					var wire []byte
					if guard(func() error { wire = pe.seal(); return nil }) != nil || wire == nil {
						continue
					}
					h.tag("foreign-major-permissive-validator")
					h.Run(Case{Op: "trace_open", A: map[string]string{"vd": "all", "keys": ringKeysStr([][]byte{rsk}), "senders": "all", "input": hx(wire), "mut": "foreign-major-" + strconv.Itoa(mj)}})
				}
			}
			for i := 0; i < n/2; i++ {
				p := h.makeScPair(1+h.rng.Intn(200), h.rng.Intn(200))
				var input []byte
				var mut string
				switch h.rng.Intn(6) {
				case 0:
					input, mut = p.wireA, "none"
				case 1:
					input, mut = insiderForgeSc(h.rng, p)
				default:
					input, mut = mutateWire(h.rng, p.wireA, p.wireB)
				}
				keys := [][]byte{p.victimSk}
				if h.rng.Intn(3) == 0 {
					keys = [][]byte{h.randBoxSk(), p.victimSk}
				}
				h.Run(Case{Op: "trace_sc_open", A: map[string]string{"keys": ringKeysStr(keys), "signers": blist([][]byte{p.signerSk[32:]}), "input": hx(input), "mut": mut}})
			}
			lens := []int{0, 1, 63, 64, 65, 100, 3000, mib + 64}
			for _, l := range lens {
				for _, v := range []string{"1.0", "2.0", "3.0"} {
					msg := h.rng.Bytes(l)
					for _, kind := range []string{"att", "det"} {
						ec := "1"
						if v == "3.0" {
							ec = "0"
						}
						h.Run(Case{Op: "trace_send", A: map[string]string{"kind": kind, "v": v, "sk": hx(h.randSigKey()), "pieces": blist([][]byte{msg}), "rng": hx(h.rng.Bytes(16)), "expect_calls": ec}})
					}
					if v != "3.0" {
						s := h.randSealSpec(1+h.rng.Intn(3), h.rng.Intn(8))
						h.Run(Case{Op: "trace_send", A: map[string]string{"kind": "enc", "v": v, "sk": hx(h.randBoxSk()), "rcpts": s.rcpts(), "pieces": blist([][]byte{msg}), "rng": hx(sealRng(h.rng, 3)), "expect_calls": "1"}})
					}
				}
				h.Run(Case{Op: "trace_send", A: map[string]string{"kind": "sc", "sk": hx(h.randSigKey()), "pieces": blist([][]byte{h.rng.Bytes(l)}), "rng": hx(sealRng(h.rng, 1)), "expect_calls": "1"}})
			}
			// operation sequences on the streaming signers, including calls after Close
			a, b, cc := hx(h.rng.Bytes(1+h.rng.Intn(40))), hx(h.rng.Bytes(64+h.rng.Intn(40))), hx(h.rng.Bytes(1+h.rng.Intn(10)))
			for _, ops := range []string{"C", "C,C", "W" + a + ",C", "W" + a + ",C,C", "W" + a + ",C,W" + b + ",C", "C,W" + b + ",C",
				"W" + a + ",W" + cc + ",C,W" + b + ",C,C", "W" + a + ",C,W" + b + ",W" + cc + ",C"} {
				for _, v := range []string{"1.0", "2.0"} {
					for _, kind := range []string{"att", "det"} {
						h.tag("opseq")
						h.Run(Case{Op: "trace_stream", A: map[string]string{"kind": kind, "v": v, "sk": hx(h.randSigKey()), "ops": ops, "rng": hx(h.rng.Bytes(16))}})
					}
				}
			}
		},
	}
}
