package main

import (
	"bufio"
	"bytes"
	"fmt"
	"io"
	"os"
	"os/exec"
	"path/filepath"
	"strconv"
	"strings"
	"sync"

	"github.com/keybase/saltpack"
	"github.com/keybase/saltpack/basic"
	"github.com/keybase/saltpack/encoding/basex"
)

// raceWorker: many goroutines run a mix of all API families on shared keys,
// keyrings and the package-level encodings; every result is compared with the
// value computed sequentially beforehand.  Built with -race for the C20 check.
// readOnly / writeOnly hide every method but Read / Write
type readOnly struct{ r io.Reader }

func (r readOnly) Read(p []byte) (int, error) { return r.r.Read(p) }

type writeOnly struct{ w io.Writer }

func (w writeOnly) Write(p []byte) (int, error) { return w.w.Write(p) }

func raceWorker(seed uint64, iters, goroutines int) int {
	r := &SplitMix{s: seed}
	h := &H{rng: r}
	type fixture struct {
		p       producer
		armored string
		at      saltpack.MessageType
	}
	var fx []fixture
	for _, p := range h.producers() {
		at := map[string]saltpack.MessageType{"enc": saltpack.MessageTypeEncryption, "sc": saltpack.MessageTypeEncryption,
			"att": saltpack.MessageTypeAttachedSignature, "det": saltpack.MessageTypeDetachedSignature}[p.name]
		txt, _ := saltpack.Armor62Seal(p.wire, at, "KB")
		fx = append(fx, fixture{p, txt, at})
	}
	rings := map[int]*hRing{}
	for i, f := range fx {
		rings[i] = makeRing(keysOf(f.p), "all", signersOf(f.p))
	}
	// one keyring of package basic shared by all goroutines: four box keys, a message to each as a HIDDEN
	// recipient (trial decryption walks GetAllBoxSecretKeys) and a signcrypted message to each
	sharedBasic := basic.NewKeyring()
	type hiddenMsg struct{ enc, sc, msg []byte }
	var hidden []hiddenMsg
	{
		var sks [][]byte
		for i := 0; i < 4; i++ {
			sk := r.Bytes(32)
			sks = append(sks, sk)
			var sp, pp [32]byte
			copy(sp[:], sk)
			copy(pp[:], boxPk(sk))
			sharedBasic.ImportBoxKey(&pp, &sp)
		}
		signer := sigSecretFromBytes(h.randSigKey())
		for _, sk := range sks {
			msg := r.Bytes(40)
			enc, e1 := saltpack.Seal(saltpack.Version2(), msg, boxSecretFromBytes(r.Bytes(32)), []saltpack.BoxPublicKey{boxPubFromBytes(boxPk(sk), true)})
			sc, e2 := saltpack.SigncryptSeal(msg, sharedBasic, signer, []saltpack.BoxPublicKey{boxPubFromBytes(boxPk(sk), false)}, nil)
			if e1 != nil || e2 != nil {
				fmt.Println("MISMATCH cannot build the shared-keyring fixtures:", e1, e2)
				return 1
			}
			hidden = append(hidden, hiddenMsg{enc, sc, msg})
		}
	}
	symKey, symID, otherBox := r.Bytes(32), r.Bytes(32), r.Bytes(32)
	emptyRing := makeRing("_", "all", signersOf(fx[len(fx)-1].p))
	payload := r.Bytes(500)
	b62 := basex.Base62StdEncoding.EncodeToString(payload)
	b58 := basex.Base58StdEncoding.EncodeToString(payload)
	var mu sync.Mutex
	var bad []string
	fail := func(f string, a ...interface{}) {
		mu.Lock()
		if len(bad) < 5 {
			bad = append(bad, fmt.Sprintf(f, a...))
		}
		mu.Unlock()
	}
	var wg sync.WaitGroup
	start := make(chan struct{})
	for g := 0; g < goroutines; g++ {
		wg.Add(1)
		go func(g int) {
			defer wg.Done()
			rr := &SplitMix{s: seed*1000 + uint64(g)}
			<-start
			for spin := rr.Intn(2000); spin > 0; spin-- { // random start offset
			}
			for it := 0; it < iters; it++ {
				i := rr.Intn(len(fx))
				f := fx[i]
				ring := rings[i]
				switch rr.Intn(13) {
				case 0: // binary receive
					switch f.p.name {
					case "enc":
						_, pt, err := saltpack.Open(saltpack.CheckKnownMajorVersion, f.p.wire, ring)
						if err != nil || !bytes.Equal(pt, f.p.msg) {
							fail("Open: %v", err)
						}
					case "sc":
						_, pt, err := saltpack.SigncryptOpen(f.p.wire, ring, nil)
						if err != nil || !bytes.Equal(pt, f.p.msg) {
							fail("SigncryptOpen: %v", err)
						}
					case "att":
						_, pt, err := saltpack.Verify(saltpack.CheckKnownMajorVersion, f.p.wire, ring)
						if err != nil || !bytes.Equal(pt, f.p.msg) {
							fail("Verify: %v", err)
						}
					case "det":
						if _, err := saltpack.VerifyDetached(saltpack.CheckKnownMajorVersion, f.p.msg, f.p.wire, ring); err != nil {
							fail("VerifyDetached: %v", err)
						}
					}
				case 1: // armored receive
					switch f.p.name {
					case "enc":
						_, pt, _, err := saltpack.Dearmor62DecryptOpen(saltpack.CheckKnownMajorVersion, f.armored, ring)
						if err != nil || !bytes.Equal(pt, f.p.msg) {
							fail("Dearmor62DecryptOpen: %v", err)
						}
					case "att":
						_, pt, _, err := saltpack.Dearmor62Verify(saltpack.CheckKnownMajorVersion, f.armored, ring)
						if err != nil || !bytes.Equal(pt, f.p.msg) {
							fail("Dearmor62Verify: %v", err)
						}
					case "det":
						if _, _, err := saltpack.Dearmor62VerifyDetached(saltpack.CheckKnownMajorVersion, f.p.msg, f.armored, ring); err != nil {
							fail("Dearmor62VerifyDetached: %v", err)
						}
					case "sc":
						_, pt, _, err := saltpack.Dearmor62SigncryptOpen(f.armored, ring, nil)
						if err != nil || !bytes.Equal(pt, f.p.msg) {
							fail("Dearmor62SigncryptOpen: %v", err)
						}
					}
				case 2: // armor / dearmor
					txt, err := saltpack.Armor62Seal(f.p.wire, f.at, "KB")
					if err != nil || txt != f.armored {
						fail("Armor62Seal differs")
					}
					body, _, _, err := saltpack.Armor62Open(f.armored)
					if err != nil || !bytes.Equal(body, f.p.wire) {
						fail("Armor62Open: %v", err)
					}
				case 3: // basex on the shared encodings
					if basex.Base62StdEncoding.EncodeToString(payload) != b62 || basex.Base58StdEncoding.EncodeToString(payload) != b58 {
						fail("basex encode differs")
					}
					d1, e1 := basex.Base62StdEncodingStrict.DecodeString(b62)
					d2, e2 := basex.Base58StdEncoding.DecodeString(b58)
					if e1 != nil || e2 != nil || !bytes.Equal(d1, payload) || !bytes.Equal(d2, payload) {
						fail("basex decode differs")
					}
				case 4: // classification
					_, mt, _, err := saltpack.IsSaltpackArmoredPrefix(f.armored)
					mt2, _, err2 := saltpack.IsSaltpackBinarySlice(f.p.wire)
					if err != nil || err2 != nil || mt != mt2 {
						fail("classification differs: %v %v", err, err2)
					}
					isArm, brand, _, _, err3 := saltpack.ClassifyStream(bufio.NewReader(strings.NewReader(f.armored)))
					if err3 != nil || !isArm || brand != "KB" {
						fail("ClassifyStream: %v", err3)
					}
				case 5: // encrypt round trip with fresh randomness
					if f.p.name == "enc" {
						msg := rr.Bytes(rr.Intn(300))
						ct, err := saltpack.Seal(saltpack.CurrentVersion(), msg, boxSecretFromBytes(f.p.encSk), []saltpack.BoxPublicKey{boxPubFromBytes(boxPk(f.p.boxSk), rr.Intn(2) == 0)})
						if err != nil {
							fail("Seal: %v", err)
							break
						}
						_, pt, err := saltpack.Open(saltpack.CheckKnownMajorVersion, ct, ring)
						if err != nil || !bytes.Equal(pt, msg) {
							fail("Seal/Open round trip: %v", err)
						}
					}
				case 6: // sign round trip
					if f.p.sigSk != nil {
						msg := rr.Bytes(rr.Intn(300))
						sm, err := saltpack.SignArmor62(saltpack.Version2(), msg, sigSecretFromBytes(f.p.sigSk), "")
						if err != nil {
							fail("SignArmor62: %v", err)
							break
						}
						_, pt, _, err := saltpack.Dearmor62Verify(saltpack.CheckKnownMajorVersion, sm, ring)
						if err != nil || !bytes.Equal(pt, msg) {
							fail("SignArmor62/Dearmor62Verify round trip: %v", err)
						}
					}
				case 7: // signcrypt round trip
					if f.p.name == "sc" {
						msg := rr.Bytes(rr.Intn(300))
						ct, err := saltpack.SigncryptArmor62Seal(msg, ring, sigSecretFromBytes(f.p.sigSk), []saltpack.BoxPublicKey{boxPubFromBytes(boxPk(f.p.boxSk), false)}, nil, "KB")
						if err != nil {
							fail("SigncryptArmor62Seal: %v", err)
							break
						}
						_, pt, _, err := saltpack.Dearmor62SigncryptOpen(ct, ring, nil)
						if err != nil || !bytes.Equal(pt, msg) {
							fail("signcrypt round trip: %v", err)
						}
					}
				case 8: // signcrypt round trip through a shared symmetric key and a resolver (no box key matches)
					if f.p.name == "sc" {
						msg := rr.Bytes(rr.Intn(300))
						var sym saltpack.SymmetricKey
						copy(sym[:], symKey)
						ct, err := saltpack.SigncryptSeal(msg, ring, sigSecretFromBytes(f.p.sigSk),
							[]saltpack.BoxPublicKey{boxPubFromBytes(boxPk(otherBox), false)},
							[]saltpack.ReceiverSymmetricKey{{Key: sym, Identifier: symID}})
						if err != nil {
							fail("SigncryptSeal(symmetric): %v", err)
							break
						}
						_, pt, err := saltpack.SigncryptOpen(ct, emptyRing, hResolver{ids: [][]byte{symID}, keys: [][]byte{symKey}})
						if err != nil || !bytes.Equal(pt, msg) {
							fail("symmetric signcrypt round trip: %v", err)
						}
					}
				case 9: // streaming encrypt + streaming decrypt
					if f.p.name == "enc" {
						msg := rr.Bytes(rr.Intn(3000))
						var buf bytes.Buffer
						w, err := saltpack.NewEncryptArmor62Stream(saltpack.Version2(), &buf, boxSecretFromBytes(f.p.encSk), []saltpack.BoxPublicKey{boxPubFromBytes(boxPk(f.p.boxSk), rr.Intn(2) == 0)}, "")
						if err != nil {
							fail("NewEncryptArmor62Stream: %v", err)
							break
						}
						w.Write(msg[:len(msg)/2])
						w.Write(msg[len(msg)/2:])
						w.Close()
						_, rd, _, err := saltpack.NewDearmor62DecryptStream(saltpack.CheckKnownMajorVersion, &buf, ring)
						if err != nil {
							fail("NewDearmor62DecryptStream: %v", err)
							break
						}
						pt, err := io.ReadAll(rd)
						if err != nil || !bytes.Equal(pt, msg) {
							fail("streaming encrypt/decrypt round trip: %v", err)
						}
					}
				case 11: // opens that walk all the box keys of ONE shared basic.Keyring
					hm := hidden[rr.Intn(len(hidden))]
					if _, pt, err := saltpack.Open(saltpack.CheckKnownMajorVersion, hm.enc, sharedBasic); err != nil || !bytes.Equal(pt, hm.msg) {
						fail("Open of a hidden-recipient message with the shared basic keyring: %v", err)
					}
					if _, pt, err := saltpack.SigncryptOpen(hm.sc, sharedBasic, nil); err != nil || !bytes.Equal(pt, hm.msg) {
						fail("SigncryptOpen with the shared basic keyring: %v", err)
					}
				case 10: // the reader-taking entry points over a reader that offers Read only (a pipe, a socket:
					// no WriteTo/ReadFrom shortcut, so the library's own copy loops and buffers are used)
					switch f.p.name {
					case "det":
						if _, err := saltpack.VerifyDetachedReader(saltpack.CheckKnownMajorVersion, readOnly{bytes.NewReader(f.p.msg)}, f.p.wire, ring); err != nil {
							fail("VerifyDetachedReader: %v", err)
						}
						if _, _, err := saltpack.Dearmor62VerifyDetachedReader(saltpack.CheckKnownMajorVersion, readOnly{bytes.NewReader(f.p.msg)}, f.armored, ring); err != nil {
							fail("Dearmor62VerifyDetachedReader: %v", err)
						}
					case "att":
						_, rd, err := saltpack.NewVerifyStream(saltpack.CheckKnownMajorVersion, readOnly{bytes.NewReader(f.p.wire)}, ring)
						if err != nil {
							fail("NewVerifyStream: %v", err)
							break
						}
						if pt, err := io.ReadAll(readOnly{rd}); err != nil || !bytes.Equal(pt, f.p.msg) {
							fail("NewVerifyStream read: %v", err)
						}
					case "enc":
						_, rd, _, err := saltpack.NewDearmor62DecryptStream(saltpack.CheckKnownMajorVersion, readOnly{strings.NewReader(f.armored)}, ring)
						if err != nil {
							fail("NewDearmor62DecryptStream: %v", err)
							break
						}
						if pt, err := io.ReadAll(readOnly{rd}); err != nil || !bytes.Equal(pt, f.p.msg) {
							fail("NewDearmor62DecryptStream read: %v", err)
						}
					case "sc":
						_, rd, err := saltpack.NewSigncryptOpenStream(readOnly{bytes.NewReader(f.p.wire)}, ring, nil)
						if err != nil {
							fail("NewSigncryptOpenStream: %v", err)
							break
						}
						if pt, err := io.ReadAll(readOnly{rd}); err != nil || !bytes.Equal(pt, f.p.msg) {
							fail("NewSigncryptOpenStream read: %v", err)
						}
					}
					if f.p.sigSk != nil {
						msg := rr.Bytes(rr.Intn(3000))
						var buf bytes.Buffer
						w, err := saltpack.NewSignDetachedStream(saltpack.Version2(), writeOnly{&buf}, sigSecretFromBytes(f.p.sigSk))
						if err != nil {
							fail("NewSignDetachedStream: %v", err)
							break
						}
						w.Write(msg[:len(msg)/3])
						w.Write(msg[len(msg)/3:])
						w.Close()
						if _, err := saltpack.VerifyDetachedReader(saltpack.CheckKnownMajorVersion, readOnly{bytes.NewReader(msg)}, buf.Bytes(), ring); err != nil {
							fail("detached stream sign/verify round trip: %v", err)
						}
					}
				default: // frames
					hdr := saltpack.MakeArmorHeader(f.at, "KB")
					ftr := saltpack.MakeArmorFooter(f.at, "KB")
					if b, err := saltpack.CheckArmor62(hdr, ftr, f.at); err != nil || b != "KB" {
						fail("CheckArmor62: %v", err)
					}
				}
			}
		}(g)
	}
	close(start)
	wg.Wait()
	if len(bad) > 0 {
		fmt.Println("MISMATCH " + strings.Join(bad, " | "))
		return 1
	}
	fmt.Printf("OK %d goroutines x %d operations\n", goroutines, iters)
	return 0
}

func init() {
	evaluators["race"] = evaluator{run: func(h *H, c Case) (fs []Failure) {
		exe, _ := os.Executable()
		bin := filepath.Join(filepath.Dir(exe), "corr-race")
		if _, err := os.Stat(bin); err != nil {
			return append(fs, Failure{Kind: "oracle", Key: "race-binary-missing", Desc: "harness/bin/corr-race not built (go build -race)"})
		}
		cmd := exec.Command(bin, "raceworker", c.A["seed"], c.A["iters"], c.A["goroutines"])
		cmd.Env = append(os.Environ(), "GOMAXPROCS="+c.A["gomaxprocs"], "GORACE=halt_on_error=0 exitcode=66")
		out, err := cmd.CombinedOutput()
		s := string(out)
		if strings.Contains(s, "DATA RACE") {
			i := strings.Index(s, "WARNING: DATA RACE")
			fs = append(fs, Failure{Kind: "oracle", Key: "data-race", Desc: clip(s[i:], 1200)})
		}
		if strings.Contains(s, "MISMATCH") {
			fs = append(fs, Failure{Kind: "oracle", Key: "concurrent-result-differs", Desc: clip(s[strings.Index(s, "MISMATCH"):], 400)})
		}
		if err != nil && len(fs) == 0 {
			fs = append(fs, Failure{Kind: "oracle", Key: "race-worker-failed", Desc: clip(err.Error()+": "+s, 400)})
		}
		h.tag("race-run:" + strings.TrimSpace(clip(s, 60)))
		return
	}}
	campaigns["C20"] = campaign{
		rule: "cases: one run of the race worker per (GOMAXPROCS in {1,2,4,16}, seed): 16 goroutines (32 in thorough) each perform 150 (1500) operations drawn at random from all API families — Open/Verify/VerifyDetached/SigncryptOpen, their Dearmor62 forms, Armor62Seal/Open, basex encode/decode on the four shared encodings, IsSaltpackArmoredPrefix/BinarySlice/ClassifyStream, Seal+Open, SignArmor62+Dearmor62Verify, SigncryptArmor62Seal+open round trips with fresh randomness, MakeArmorHeader/CheckArmor62, and the reader/writer-taking entry points (VerifyDetachedReader, Dearmor62VerifyDetachedReader, NewVerifyStream, NewDearmor62DecryptStream, NewSigncryptOpenStream, NewSignDetachedStream) over readers and writers that offer only Read/Write, and hidden-recipient / signcryption opens through one shared basic.Keyring holding four keys — on shared keys, keyrings and package-level state, with random start offsets; the binary is built with -race; every result is compared with the value computed sequentially beforehand; any race report or differing result is a violation.",
		gen: func(h *H) {
			iters, gor := "150", "16"
			seeds := 1
			if h.tier == "thorough" {
				iters, gor, seeds = "1500", "32", 4
			}
			for _, gm := range []string{"1", "2", "4", "16"} {
				for s := 0; s < seeds; s++ {
					h.Run(Case{Op: "race", A: map[string]string{"gomaxprocs": gm, "seed": strconv.FormatUint(h.rng.Next()%100000, 10), "iters": iters, "goroutines": gor}})
				}
			}
		},
	}
}
