package main

import (
	"bytes"
	cryptorand "crypto/rand"
	"errors"
	"fmt"
	"io"
	"strings"

	"github.com/keybase/saltpack"
	"github.com/keybase/saltpack/basic"
	"github.com/keybase/saltpack/encoding/basex"
	"golang.org/x/crypto/curve25519"
	"golang.org/x/crypto/ed25519"
)

// ---------- pinned randomness ----------

var errRandFail = errors.New("verif: randomness source exhausted")

type streamReader struct {
	data    []byte
	calls   int
	failAt  int // transient fault: this Read call (1-based) fails once, consuming nothing
	shortAt int // this Read call (1-based) delivers fewer bytes than asked, with a nil error
}

// randFailAt, when non-zero, makes the next pinned randomness source fail transiently at that Read call
var randFailAt int

// randShortAt, when non-zero, makes that Read call a legal short read (n < len(p), nil error)
var randShortAt int
var randCalls int // Read calls made on the last pinned source

func (s *streamReader) Read(p []byte) (int, error) {
	s.calls++
	randCalls = s.calls
	if s.failAt != 0 && s.calls == s.failAt {
		return 0, errRandFail
	}
	if len(s.data) == 0 {
		return 0, errRandFail
	}
	if s.shortAt != 0 && s.calls == s.shortAt && len(p) > 1 && len(s.data) > 1 {
		n := copy(p[:1+len(p)/8], s.data)
		s.data = s.data[n:]
		return n, nil
	}
	n := copy(p, s.data)
	s.data = s.data[n:]
	if n < len(p) {
		return n, errRandFail
	}
	return n, nil
}

// withRand runs f with crypto/rand.Reader replaced by the given stream and
// returns how many bytes were left unread.
func withRand(stream []byte, f func()) (left int) {
	old := cryptorand.Reader
	sr := &streamReader{data: append([]byte{}, stream...), failAt: randFailAt, shortAt: randShortAt}
	cryptorand.Reader = sr
	defer func() { cryptorand.Reader = old; left = len(sr.data) }()
	f()
	return
}

// ---------- keys ----------

type boxPub struct {
	basic.PublicKey
	hide bool
}

func (k boxPub) HideIdentity() bool { return k.hide }

func boxSecretFromBytes(sk []byte) basic.SecretKey {
	var s, p [32]byte
	copy(s[:], sk)
	curve25519.ScalarBaseMult(&p, &s)
	return basic.NewSecretKey(&p, &s)
}

func boxPubFromBytes(pk []byte, hide bool) boxPub {
	var p [32]byte
	copy(p[:], pk)
	return boxPub{PublicKey: basic.PublicKey{RawBoxKey: p}, hide: hide}
}

func sigSecretFromBytes(sk []byte) basic.SigningSecretKey {
	var s [64]byte
	var p [32]byte
	copy(s[:], sk)
	copy(p[:], sk[32:])
	return basic.NewSigningSecretKey(&p, &s)
}

func newSigSecret(seed []byte) []byte {
	return ed25519.NewKeyFromSeed(seed[:32])
}

// sigRing knows exactly the listed public keys.
type sigRing struct{ known [][]byte }

func (r sigRing) LookupSigningPublicKey(kid []byte) saltpack.SigningPublicKey {
	for _, k := range r.known {
		if bytes.Equal(k, kid) {
			var p [32]byte
			copy(p[:], kid)
			return basic.NewSigningPublicKey(&p)
		}
	}
	return nil
}

// ---------- error classes (same strings as runner/main.ml err_str) ----------

func errClass(err error) string {
	switch e := err.(type) {
	case nil:
		return "ok"
	case saltpack.ErrNoSenderKey:
		return "ErrNoSenderKey"
	case saltpack.ErrBadTag:
		return fmt.Sprintf("ErrBadTag:%d", uint64(e))
	case saltpack.ErrBadCiphertext:
		return fmt.Sprintf("ErrBadCiphertext:%d", uint64(e))
	case saltpack.ErrRepeatedKey:
		return "ErrRepeatedKey"
	case saltpack.ErrWrongMessageType:
		return "ErrWrongMessageType"
	case saltpack.ErrBadVersion:
		return "ErrBadVersion"
	case saltpack.ErrBadFrame:
		return "ErrBadFrame"
	case saltpack.ErrInvalidParameter:
		return "ErrInvalidParameter"
	case basex.CorruptInputError:
		return fmt.Sprintf("ErrBxCorrupt:%d", int(e))
	}
	switch err {
	case io.EOF:
		return "EOF"
	case io.ErrUnexpectedEOF:
		return "ErrUnexpectedEOF"
	case saltpack.ErrFailedToReadHeaderBytes:
		return "ErrFailedToReadHeaderBytes"
	case saltpack.ErrNoDecryptionKey:
		return "ErrNoDecryptionKey"
	case saltpack.ErrTrailingGarbage:
		return "ErrTrailingGarbage"
	case saltpack.ErrPacketOverflow:
		return "ErrPacketOverflow"
	case saltpack.ErrInsufficientRandomness, errRandFail:
		return "ErrRand"
	case saltpack.ErrBadEphemeralKey:
		return "ErrBadEphemeralKey"
	case saltpack.ErrBadReceivers:
		return "ErrBadReceivers"
	case saltpack.ErrBadSenderKeySecretbox:
		return "ErrBadSenderKeySecretbox"
	case saltpack.ErrBadSymmetricKey:
		return "ErrBadSymmetricKey"
	case saltpack.ErrBadBoxKey:
		return "ErrBadBoxKey"
	case saltpack.ErrBadLookup:
		return "ErrBadLookup"
	case saltpack.ErrBadSignature:
		return "ErrBadSignature"
	case saltpack.ErrDecryptionFailed:
		return "ErrDecryptionFailed"
	case saltpack.ErrWrongNumberOfKeys:
		return "ErrWrongNumberOfKeys"
	case saltpack.ErrUnexpectedEmptyBlock:
		return "ErrUnexpectedEmptyBlock"
	case saltpack.ErrNotASaltpackMessage:
		return "ErrNotASaltpackMessage"
	case saltpack.ErrShortSliceOrBuffer:
		return "ErrShortSliceOrBuffer"
	case saltpack.ErrPunctuated:
		return "ErrPunctuated"
	case saltpack.ErrOverflow:
		return "ErrOverflow"
	case basex.ErrInvalidEncodingLength:
		return "ErrBxLength"
	case errInjected:
		return "ErrIO"
	}
	s := err.Error()
	if strings.HasPrefix(s, "PANIC") {
		return s
	}
	// anything else comes from go-codec
	return "ErrDecode"
}

var errInjected = errors.New("verif: injected I/O fault")

// errClassHeader: in the header phase the bytes decoder's EOF errors are decode errors
func errClassHeader(err error) string {
	if err == io.EOF || err == io.ErrUnexpectedEOF {
		return "ErrDecode"
	}
	return errClass(err)
}

// guard runs f, turning a panic into an error of class "PANIC: ..."
func guard(f func() error) (err error) {
	defer func() {
		if r := recover(); r != nil {
			err = fmt.Errorf("PANIC: %v", r)
		}
	}()
	return f()
}

func parseVersion(s string) saltpack.Version {
	var v saltpack.Version
	fmt.Sscanf(s, "%d.%d", &v.Major, &v.Minor)
	return v
}

func parseValidator(s string) saltpack.VersionValidator {
	if s == "any" {
		return saltpack.CheckKnownMajorVersion
	}
	if s == "all" {
		// an application validator that admits every version (the library leaves the policy to the caller)
		return func(saltpack.Version) error { return nil }
	}
	return saltpack.SingleVersionValidator(parseVersion(strings.TrimPrefix(s, "single:")))
}

// list of byte strings: hex items joined by ','; "_" is the empty list
func blist(l [][]byte) string {
	if len(l) == 0 {
		return "_"
	}
	s := make([]string, len(l))
	for i, b := range l {
		s[i] = hx(b)
	}
	return strings.Join(s, ",")
}
func unblist(s string) [][]byte {
	if s == "_" {
		return nil
	}
	var out [][]byte
	for _, it := range strings.Split(s, ",") {
		out = append(out, unhx(it))
	}
	return out
}

// readAllChunked drains r with the given buffer size, returning everything
// released and the terminating error.
// consumePattern: how readAllChunked pulls a decoded stream. 0: a Read loop with the given buffer size.
// k > 0: as many callers do - fill a k-byte prefix buffer (stopping, like io.ReadFull, as soon as it is full, so an
// error delivered together with the last byte is left for the next call), then io.Copy for the rest (which uses
// WriterTo when the stream offers it). The outcome must not depend on the pattern.
var consumePattern int

func readAllChunked(r io.Reader, bufsize int) ([]byte, error) {
	if k := consumePattern; k > 0 {
		buf := make([]byte, k)
		n := 0
		var err error
		for n < k && err == nil {
			var m int
			m, err = r.Read(buf[n:])
			n += m
		}
		if n >= k {
			err = nil
		}
		if err != nil {
			return buf[:n], err
		}
		var w bytes.Buffer
		_, err = io.Copy(&w, r)
		if err == nil {
			err = io.EOF
		}
		return append(buf[:n], w.Bytes()...), err
	}
	var out []byte
	buf := make([]byte, bufsize)
	for i := 0; ; i++ {
		n, err := r.Read(buf)
		out = append(out, buf[:n]...)
		if err != nil {
			return out, err
		}
		if i > 1<<26 {
			return out, errors.New("PANIC: reader never terminates")
		}
	}
}

// decodeOrderOnly: the model parses a whole MessagePack value and then views it as the
// typed packet, go-codec decodes typed and streaming; on a value that is both ill-typed
// and truncated the model reports the truncation (ErrUnexpectedEOF) and go-codec the
// type error it meets first (ErrDecode).  Everything else — attribution, released
// bytes — must still agree; such cases are counted with the unmodelled ones.
func decodeOrderOnly(m, got string) bool {
	const a, b = " ErrUnexpectedEOF", " ErrDecode"
	return strings.HasSuffix(m, a) && strings.HasSuffix(got, b) && strings.TrimSuffix(m, a) == strings.TrimSuffix(got, b)
}
