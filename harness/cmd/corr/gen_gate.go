package main

import (
	"bytes"
	"fmt"
	"github.com/keybase/saltpack"
	"io"
	"strconv"
	"strings"
)

type producer struct {
	name  string // enc, sc, att, det
	v     string
	wire  []byte
	msg   []byte
	boxSk []byte // a recipient's box secret (enc, sc)
	sigSk []byte // signer (att, det, sc)
	encSk []byte // sender box secret (enc)
}

func (h *H) producers() []producer {
	return h.producersOf(h.rng.Bytes(1 + h.rng.Intn(80)))
}

// producersOfLen: one genuine message of every mode and version carrying l random bytes
func (h *H) producersOfLen(l int) []producer {
	return h.producersOf(h.rng.Bytes(l))
}

func (h *H) producersOf(msg []byte) []producer {
	var out []producer
	for _, v := range []string{"1.0", "2.0"} {
		rsk, ssk := h.randBoxSk(), h.randBoxSk()
		s := sealSpec{v: v, sender: ssk, rsk: [][]byte{rsk}, hide: []bool{false}}
		w, _, err := implSeal(parseVersion(v), s.senderStr(), s.rcpts(), [][]byte{msg}, sealRng(h.rng, 1), true)
		if err != nil {
			fatal("producer enc: %v", err)
		}
		out = append(out, producer{name: "enc", v: v, wire: w, msg: msg, boxSk: rsk, encSk: ssk})
		sk := h.randSigKey()
		out = append(out, producer{name: "att", v: v, wire: h.makeSigned("att", sk, v, msg).wire, msg: msg, sigSk: sk})
		out = append(out, producer{name: "det", v: v, wire: h.makeSigned("det", sk, v, msg).wire, msg: msg, sigSk: sk})
	}
	{
		rsk, sk := h.randBoxSk(), h.randSigKey()
		s := scSpec{signer: sk, bsk: [][]byte{rsk}}
		w, _, err := implScSeal(s.signerStr(), s.boxes(), s.syms(), [][]byte{msg}, sealRng(h.rng, 1), true)
		if err != nil {
			fatal("producer sc: %v", err)
		}
		out = append(out, producer{name: "sc", v: "2.0", wire: w, msg: msg, boxSk: rsk, sigSk: sk})
	}
	return out
}

// feed one wire message to one consumer entry point with one validator
func consumerCase(cons, vd string, p producer, extra map[string]string) Case {
	a := map[string]string{}
	boxKeys := "_"
	if p.boxSk != nil {
		boxKeys = ringKeysStr([][]byte{p.boxSk})
	}
	signers := "_"
	if p.sigSk != nil {
		signers = blist([][]byte{p.sigSk[32:]})
	}
	var op string
	switch cons {
	case "enc":
		op = "open"
		a = map[string]string{"vd": vd, "keys": boxKeys, "senders": "all", "input": hx(p.wire), "buf": "64"}
	case "sc":
		op = "sc_open"
		a = map[string]string{"keys": boxKeys, "signers": signers, "resolver": "none", "input": hx(p.wire), "buf": "64"}
	case "att":
		op = "verify"
		a = map[string]string{"vd": vd, "ring": signers, "input": hx(p.wire), "buf": "64"}
	default:
		op = "verify_detached"
		a = map[string]string{"vd": vd, "ring": signers, "msg": hx(p.msg), "sig": hx(p.wire)}
	}
	for k, v := range extra {
		a[k] = v
	}
	return Case{Op: op, A: a}
}

func genCrossMode(h *H, rounds int) {
	for r := 0; r < rounds; r++ {
		ps := h.producers()
		for _, p := range ps {
			for _, cons := range []string{"enc", "sc", "att", "det"} {
				for _, vd := range []string{"any", "single:1.0", "single:2.0"} {
					if cons == "sc" && vd != "any" {
						continue
					}
					okMode := cons == p.name
					okVer := vd == "any" || vd == "single:"+p.v
					extra := map[string]string{}
					if !(okMode && okVer) {
						extra["must_reject"] = "cross-mode-or-version-accepted"
						extra["why"] = "a " + p.name + " " + p.v + " message fed to the " + cons + " entry point with validator " + vd
					} else {
						switch cons {
						case "enc":
							extra["want"], extra["want_sender"], extra["want_hidden"] = hx(p.msg), hx(boxPk(p.encSk)), "0"
						case "sc":
							extra["want"], extra["want_signer"] = hx(p.msg), hx(p.sigSk[32:])
						case "att":
							extra["want"], extra["want_pk"] = hx(p.msg), hx(p.sigSk[32:])
						default:
							extra["want_pk"] = hx(p.sigSk[32:])
						}
						extra["knobs"] = "library-produced"
					}
					h.tag("gate:" + p.name + "->" + cons)
					h.Run(consumerCase(cons, vd, p, extra))
					// the same message through the armored and classify entry points of that consumer: the
					// gate (accept / reject) must be the one of the binary entry point
					accept := "0"
					if okMode && okVer {
						accept = "1"
					}
					h.tag("gate-armored:" + p.name + "->" + cons)
					h.Run(Case{Op: "gate_armored", A: map[string]string{"cons": cons, "vd": vd, "wire": hx(p.wire), "msg": hx(p.msg), "prod": p.name,
						"keys": keysOf(p), "signers": signersOf(p), "accept": accept}})
				}
			}
		}
	}
}

// correctly keyed and (re)signed messages whose header lies about format name, version or mode
func genHeaderLies(h *H, rounds int) {
	for r := 0; r < rounds; r++ {
		msg := h.rng.Bytes(1 + h.rng.Intn(40))
		type lie struct {
			format       string
			major, minor int
			modeDelta    int
			why          string
		}
		lies := []lie{
			{"pgpgpgpg", 0, 0, 0, "format name is not saltpack"},
			{"SALTPACK", 0, 0, 0, "format name is not saltpack"},
			{"", 0, 0, 0, "format name is empty"},
			{"saltpack", 3, 0, 0, "major version 3"},
			{"saltpack", 0, 0, 0, "major version 0"},
			{"saltpack", -1, 0, 1, "mode field names another mode (everything re-signed / re-keyed accordingly)"},
			{"saltpack", -1, 0, 2, "mode field names another mode (everything re-signed / re-keyed accordingly)"},
			{"saltpack", -1, 0, 3, "mode field names another mode (everything re-signed / re-keyed accordingly)"},
		}
		for _, l := range lies {
			for _, major := range []int{1, 2} {
				mj := l.major
				if mj == -1 {
					mj = major
				}
				if l.format == "saltpack" && l.major == 0 && l.modeDelta == 0 {
					mj = 0
				}
				if l.format != "saltpack" {
					mj = major
				}
				ex := map[string]string{"must_reject": "accepts-lying-header", "why": l.why}
				// encryption
				rsk, ssk := h.randBoxSk(), h.randBoxSk()
				pe := &refEnc{format: l.format, major: mj, minor: l.minor, mode: (0 + l.modeDelta) % 4, senderSk: ssk, ephSk: h.randBoxSk(), payloadKey: h.rng.Bytes(32),
					rcpts: []refRcpt{{pk: boxPk(rsk)}}, chunks: [][]byte{msg}}
				if mj == 1 || mj == 2 {
					h.tag("lie:enc")
					h.Run(consumerCase("enc", "any", producer{name: "enc", wire: pe.seal(), msg: msg, boxSk: rsk}, ex))
				}
				// attached / detached
				sk := h.randSigKey()
				for _, md := range []int{1, 2} {
					ps := &refSig{format: l.format, major: mj, minor: l.minor, mode: (md + l.modeDelta) % 4, sk: sk, nonce: h.rng.Bytes(16), chunks: [][]byte{msg}, msg: msg}
					if mj != 1 && mj != 2 {
						ps.major = mj
					}
					// sign() switches on mode==2 for the detached layout: keep the layout of the consumer under test
					lay := *ps
					lay.mode = md
					wire := lay.signAs(ps.mode)
					cons := "att"
					if md == 2 {
						cons = "det"
					}
					h.tag("lie:" + cons)
					h.Run(consumerCase(cons, "any", producer{name: cons, wire: wire, msg: msg, sigSk: sk}, ex))
				}
				// signcryption
				if major == 2 {
					bsk, ssk2 := h.randBoxSk(), h.randSigKey()
					mjs := mj
					psc := &refSc{format: l.format, major: mjs, minor: l.minor, mode: (3 + l.modeDelta) % 4, signerSk: ssk2, ephSk: h.randBoxSk(), payloadKey: h.rng.Bytes(32),
						rcpts: []refScRcpt{{boxPk: boxPk(bsk)}}, chunks: [][]byte{msg}}
					if mjs == 2 || l.format != "saltpack" || l.modeDelta != 0 {
						h.tag("lie:sc")
						h.Run(consumerCase("sc", "any", producer{name: "sc", wire: psc.seal(), msg: msg, boxSk: bsk, sigSk: ssk2}, ex))
					}
					if l.format == "saltpack" && l.modeDelta == 0 {
						// signcryption exists only in major version 2: a self-consistent message labelled with
						// any other major (sealed and signed over that header) must be refused
						for _, om := range []int{0, 1, 3} {
							for _, mn := range []int{0, 7} {
								q := *psc
								q.major, q.minor = om, mn
								h.tag("lie:sc-major")
								h.Run(consumerCase("sc", "any", producer{name: "sc", wire: q.seal(), msg: msg, boxSk: bsk, sigSk: ssk2},
									map[string]string{"must_reject": "accepts-lying-header", "why": fmt.Sprintf("signcryption message labelled version %d.%d", om, mn)}))
							}
						}
					}
				}
			}
		}
	}
}

func genSealVersions(h *H) {
	for maj := 0; maj <= 3; maj++ {
		for mnr := 0; mnr <= 2; mnr++ {
			s := h.randSealSpec(1+h.rng.Intn(2), h.rng.Intn(4))
			s.v = strconv.Itoa(maj) + "." + strconv.Itoa(mnr)
			h.Run(sealCase(s, [][]byte{h.rng.Bytes(h.rng.Intn(40))}, sealRng(h.rng, 2), maj%2 == 0))
		}
	}
	for _, v := range []string{"-1.0", "2.-1", "255.255"} {
		s := h.randSealSpec(1, 0)
		s.v = v
		h.Run(sealCase(s, [][]byte{h.rng.Bytes(5)}, sealRng(h.rng, 1), true))
	}
}

func init() {
	// the armored forms (and the classify-and-decrypt entry point) of each consumer apply the same
	// gate as the binary form: same accept/reject for every (producer, consumer, validator) triple
	evaluators["gate_armored"] = evaluator{run: func(h *H, c Case) (fs []Failure) {
		wire, msg := unhx(c.A["wire"]), unhx(c.A["msg"])
		vd := parseValidator(c.A["vd"])
		ring := makeRing(c.A["keys"], "all", c.A["signers"])
		sring := ring
		at := map[string]saltpack.MessageType{"enc": saltpack.MessageTypeEncryption, "sc": saltpack.MessageTypeEncryption,
			"att": saltpack.MessageTypeAttachedSignature, "det": saltpack.MessageTypeDetachedSignature}
		// armor under the frame type the consumer expects, so that only the header gate decides
		var results []string
		var names []string
		add := func(name string, f func(txt string) error) {
			txt, err := saltpack.Armor62Seal(wire, at[c.A["cons"]], "")
			if err != nil {
				return
			}
			var e error
			if pe := guard(func() error { e = f(txt); return nil }); pe != nil {
				e = pe
			}
			names = append(names, name)
			if e == nil {
				results = append(results, "1")
			} else {
				results = append(results, "0")
			}
		}
		switch c.A["cons"] {
		case "enc":
			add("Dearmor62DecryptOpen", func(t string) error { _, _, _, e := saltpack.Dearmor62DecryptOpen(vd, t, ring); return e })
			add("NewDearmor62DecryptStream", func(t string) error {
				_, r, _, e := saltpack.NewDearmor62DecryptStream(vd, strings.NewReader(t), ring)
				if e != nil {
					return e
				}
				_, e = io.ReadAll(r)
				return e
			})
			if c.A["vd"] == "any" {
				add("ClassifyEncryptedStreamAndMakeDecoder", func(t string) error {
					r, mt, _, _, _, _, _, e := saltpack.ClassifyEncryptedStreamAndMakeDecoder(strings.NewReader(t), ring, nil)
					if e != nil {
						return e
					}
					if mt != saltpack.MessageTypeEncryption {
						return fmt.Errorf("classified as %v", mt)
					}
					_, e = io.ReadAll(r)
					return e
				})
			}
		case "sc":
			add("Dearmor62SigncryptOpen", func(t string) error { _, _, _, e := saltpack.Dearmor62SigncryptOpen(t, ring, nil); return e })
			add("NewDearmor62SigncryptOpenStream", func(t string) error {
				_, r, _, e := saltpack.NewDearmor62SigncryptOpenStream(strings.NewReader(t), ring, nil)
				if e != nil {
					return e
				}
				_, e = io.ReadAll(r)
				return e
			})
			add("ClassifyEncryptedStreamAndMakeDecoder", func(t string) error {
				r, mt, _, _, _, _, _, e := saltpack.ClassifyEncryptedStreamAndMakeDecoder(strings.NewReader(t), ring, nil)
				if e != nil {
					return e
				}
				if mt != saltpack.MessageTypeSigncryption {
					return fmt.Errorf("classified as %v", mt)
				}
				_, e = io.ReadAll(r)
				return e
			})
		case "att":
			add("Dearmor62Verify", func(t string) error { _, _, _, e := saltpack.Dearmor62Verify(vd, t, sring); return e })
			add("NewDearmor62VerifyStream", func(t string) error {
				_, r, _, e := saltpack.NewDearmor62VerifyStream(vd, strings.NewReader(t), sring)
				if e != nil {
					return e
				}
				_, e = io.ReadAll(r)
				return e
			})
		default:
			add("Dearmor62VerifyDetached", func(t string) error { _, _, e := saltpack.Dearmor62VerifyDetached(vd, msg, t, sring); return e })
			add("Dearmor62VerifyDetachedReader", func(t string) error {
				_, _, e := saltpack.Dearmor62VerifyDetachedReader(vd, bytes.NewReader(msg), t, sring)
				return e
			})
		}
		for i, r := range results {
			if r != c.A["accept"] {
				what := "REJECTED a message the gate admits"
				if r == "1" {
					what = "ACCEPTED a message the gate refuses"
				}
				fs = append(fs, Failure{Kind: "oracle", Key: "armored-entry-point-gate-differs", Desc: fmt.Sprintf("%s %s: a %s message with validator %s (binary entry point: accept=%s)", names[i], what, c.A["prod"], c.A["vd"], c.A["accept"])})
			}
		}
		return
	}}
	campaigns["C17"] = campaign{
		rule: "cases: (1) every Version in {0..3}x{0..2} plus odd values handed to every sending entry point (Sign, SignDetached, Seal; one-shot and streaming): must return ErrBadVersion, emit nothing, not panic; (2) every library-produced message (encryption V1/V2, signcryption, attached V1/V2, detached V1/V2) fed to every receiving entry point with every shipped validator (any known major, single 1.0, single 2.0): accepted exactly when mode and version match; (3) messages from the reference sender whose header lies about the format name, the major version or the mode while all keys, MACs and signatures are computed consistently with the lying header: must be rejected. Model and implementation compared on every case.",
		gen: func(h *H) {
			genSignVersions(h)
			genSealVersions(h)
			r := 3
			if h.tier == "thorough" {
				r = 60
			}
			genCrossMode(h, r)
			genHeaderLies(h, r)
		},
	}
	campaigns["C08"] = campaign{
		rule: "cases: every sending entry point of every mode and version (Sign/SignDetached/Seal/SigncryptSeal, one-shot and streaming with random Write splits, named/anonymous senders, all small recipient configurations, lengths 0,1,2,31..33,255..257,1000, random, k MiB-1/k MiB/k MiB+1) with pinned randomness; the emitted bytes must equal the extracted model's bytes literally, and the independent strict receiver written from specs/*.md (harness/cmd/corr/ref.go: minimal MessagePack encodings, byte strings never nil, specified nonces/MAC/signature inputs, chunks <= 1 MiB, final marker on the last packet only) must authenticate every packet and recover the same plaintext, sender, recipients and version.",
		gen: func(h *H) {
			h.specOracles = true
			genSignRoundtrip(h, []string{"att", "det"})
			genSealRoundtrip(h)
			genScRoundtrip(h)
		},
	}
	campaigns["C18"] = campaign{
		rule: "cases: (1) repeated sealing/signing calls with identical arguments and consecutive segments of one pinned randomness stream: the ephemeral public key, payload key (recovered by the reference receiver) and signature nonce of every message must be pairwise distinct and equal to the stream segments the model consumes; (2) the randomness source failing (error / short read) at every byte offset up to the amount a fault-free operation consumes, for Sign, SignDetached, Seal, SigncryptSeal: the operation must fail. Model and implementation compared on every case (emitted bytes and bytes of randomness left).",
		gen:  genC18,
	}
}
