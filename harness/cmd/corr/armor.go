package main

import (
	"bufio"
	"bytes"
	"fmt"
	"github.com/keybase/saltpack/encoding/basex"
	"io"
	"regexp"
	"strconv"
	"strings"

	"github.com/keybase/saltpack"
)

var typOf = map[string]saltpack.MessageType{"0": saltpack.MessageTypeEncryption, "1": saltpack.MessageTypeAttachedSignature, "2": saltpack.MessageTypeDetachedSignature, "3": saltpack.MessageTypeSigncryption}

// the header grammar of specs/saltpack_armor.md
var specFrameRE = regexp.MustCompile(`^[>\n\r\t ]*(BEGIN|END)[>\n\r\t ]+([a-zA-Z0-9]+[>\n\r\t ]+)?SALTPACK[>\n\r\t ]+(ENCRYPTED[>\n\r\t ]+MESSAGE|SIGNED[>\n\r\t ]+MESSAGE|DETACHED[>\n\r\t ]+SIGNATURE)[>\n\r\t ]*$`)

func implDearmor(chk string, msg string) (body []byte, brand, header, footer string, err error) {
	err = guard(func() error {
		var e error
		if chk == "none" {
			body, brand, header, footer, e = saltpack.Armor62OpenWithValidation(msg, nil, nil)
			return e
		}
		t := typOf[chk]
		hc := func(h string) (string, error) {
			return saltpack.CheckArmor62(h, strings.Replace(h, "BEGIN", "END", 1), t)
		}
		_ = hc
		body, brand, header, footer, e = saltpack.Armor62OpenWithValidation(msg,
			func(h string) (string, error) { return saltpack.VerifParseFrame(h, t, true) },
			func(h, f string) (string, error) { return saltpack.CheckArmor62(h, f, t) })
		return e
	})
	return
}

// reflow inserts runs of space/tab/CR/LF/'>' at word boundaries and between payload characters
func reflow(r *SplitMix, armored string, mode int) string {
	ws := []string{" ", "\n", "\t", "\r\n", ">", "> ", "\n> ", "  ", "\n\n"}
	var out strings.Builder
	if mode >= 1 && r.Intn(2) == 0 {
		out.WriteString(ws[r.Intn(len(ws))])
	}
	dots := 0
	for i := 0; i < len(armored); i++ {
		ch := armored[i]
		if ch == '.' {
			dots++
		}
		switch {
		case ch == ' ' || ch == '\n':
			out.WriteString(ws[r.Intn(len(ws))])
			if r.Intn(3) == 0 {
				out.WriteString(ws[r.Intn(len(ws))])
			}
		default:
			out.WriteByte(ch)
			// inside the payload (between the first and second period) any two characters may be separated
			if dots == 1 && ch != '.' && mode >= 2 && r.Intn(7) == 0 {
				out.WriteString(ws[r.Intn(len(ws))])
			}
		}
	}
	if mode >= 1 && r.Intn(2) == 0 {
		out.WriteString(ws[r.Intn(len(ws))])
	}
	return out.String()
}

func normFrame(s string) string {
	re := regexp.MustCompile("[>\n\r\t ]+")
	return strings.TrimSpace(re.ReplaceAllString(s, " "))
}

func init() {
	// ---- armoring: output shape and round trips ----
	evaluators["armor"] = evaluator{run: func(h *H, c Case) (fs []Failure) {
		payload := unhx(c.A["payload"])
		brand := string(unhx(c.A["brand"]))
		t := typOf[c.A["typ"]]
		got, err := saltpack.Armor62Seal(payload, t, brand)
		if err != nil {
			return append(fs, Failure{Kind: "oracle", Key: "armor-seal-fails", Desc: err.Error()})
		}
		m := h.rn.Call("armor_seal", hx(payload), c.A["typ"], hx([]byte(brand)))
		if len(m) != 1 || string(unhx(m[0])) != got {
			fs = append(fs, Failure{Kind: "correspondence", Key: "armor-seal", Desc: fmt.Sprintf("model %.120q impl %.120q", string(unhx(m[0])), got)})
		}
		// streaming encoder with random Write splits
		var buf bytes.Buffer
		w, err := saltpack.NewArmor62EncoderStream(&buf, t, brand)
		if err == nil {
			err = writePieces(w, splitPieces(h.rng, payload))
			if err == nil {
				err = w.Close()
			}
		}
		if err != nil || buf.String() != got {
			fs = append(fs, Failure{Kind: "oracle", Key: "armor-stream-differs", Desc: fmt.Sprintf("streaming armor encoder output differs from Armor62Seal (err %v)", err)})
		}
		// shape
		parts := strings.Split(got, ".")
		if len(parts) != 4 || parts[3] != "\n" {
			return append(fs, Failure{Kind: "oracle", Key: "armor-shape", Desc: "output is not header. body. footer.\\n"})
		}
		hdr, body, ftr := parts[0], parts[1], parts[2]
		if !specFrameRE.MatchString(hdr) || !specFrameRE.MatchString(ftr) || !strings.HasPrefix(hdr, "BEGIN ") || !strings.HasPrefix(ftr, " END ") {
			fs = append(fs, Failure{Kind: "oracle", Key: "armor-frame-grammar", Desc: fmt.Sprintf("header %q / footer %q do not match the specification's frame grammar", hdr, ftr)})
		}
		if !strings.HasPrefix(body, " ") {
			fs = append(fs, Failure{Kind: "oracle", Key: "armor-shape", Desc: "no space after the header period"})
		}
		for _, line := range strings.Split(strings.TrimPrefix(body, " "), "\n") {
			ws := strings.Split(strings.TrimRight(line, " "), " ")
			if len(ws) > 200 {
				fs = append(fs, Failure{Kind: "oracle", Key: "armor-line-too-long", Desc: fmt.Sprintf("%d words on a line", len(ws))})
			}
			for _, wd := range ws {
				if len(wd) > 15 {
					fs = append(fs, Failure{Kind: "oracle", Key: "armor-word-too-long", Desc: fmt.Sprintf("word of %d characters", len(wd))})
				}
				for i := 0; i < len(wd); i++ {
					if !strings.ContainsRune("0123456789ABCDEFGHIJKLMNOPQRSTUVWXYZabcdefghijklmnopqrstuvwxyz", rune(wd[i])) {
						fs = append(fs, Failure{Kind: "oracle", Key: "armor-foreign-char", Desc: "non-base62 character in the body"})
					}
				}
			}
		}
		// round trip, also after re-flowing
		for mode := 0; mode <= 2; mode++ {
			txt := got
			if mode > 0 {
				txt = reflow(h.rng, got, mode)
			}
			b2, br, hd, ft, e := implDearmor(c.A["typ"], txt)
			okFrames := normFrame(hd) == strings.TrimSpace(hdr) && normFrame(ft) == strings.TrimSpace(ftr)
			if mode == 0 {
				okFrames = hd == strings.TrimSpace(hdr) && ft == strings.TrimSpace(ftr)
			}
			if e != nil || !bytes.Equal(b2, payload) || br != brand || !okFrames {
				fs = append(fs, Failure{Kind: "oracle", Key: "armor-roundtrip", Desc: fmt.Sprintf("reflow mode %d: dearmor gives err %v, payload equal %v, brand %q, header %q", mode, e, bytes.Equal(b2, payload), br, hd)})
				break
			}
		}
		// wrong expected type is rejected
		other := map[string]string{"0": "1", "1": "2", "2": "0"}[c.A["typ"]]
		if _, _, _, _, e := implDearmor(other, got); e == nil {
			fs = append(fs, Failure{Kind: "oracle", Key: "armor-wrong-type-accepted", Desc: "an armored " + c.A["typ"] + " message was accepted by the checker for type " + other})
		}
		return
	}, trivial: func(c Case) bool { return false }}

	// ---- dearmoring arbitrary text ----
	evaluators["dearmor"] = evaluator{run: func(h *H, c Case) (fs []Failure) {
		input := string(unhx(c.A["input"]))
		body, brand, hd, ft, err := implDearmor(c.A["chk"], input)
		got := "err"
		if err == nil {
			got = strings.Join([]string{"ok", hx(body), hx([]byte(brand)), hx([]byte(hd)), hx([]byte(ft))}, " ")
		}
		if err != nil && strings.HasPrefix(err.Error(), "PANIC") {
			fs = append(fs, Failure{Kind: "oracle", Key: "dearmor-panic", Desc: clip(err.Error(), 200)})
		}
		m := strings.Join(h.rn.Call("dearmor", c.A["chk"], hx([]byte(input))), " ")
		if strings.HasPrefix(m, "err") {
			h.tag("dearmor-model:" + m)
			m = "err"
		}
		if m != got {
			fs = append(fs, Failure{Kind: "correspondence", Key: "dearmor", Desc: fmt.Sprintf("model %.200s | impl %.200s (err %v)", m, got, err)})
		}
		if w, ok := c.A["want"]; ok {
			if err != nil || hx(body) != w {
				fs = append(fs, Failure{Kind: "oracle", Key: "dearmor-rejects-genuine", Desc: fmt.Sprintf("%s: err %v", c.A["why"], err)})
			}
		}
		if rk, ok := c.A["must_reject"]; ok && err == nil {
			fs = append(fs, Failure{Kind: "oracle", Key: rk, Desc: c.A["why"] + ": accepted"})
		}
		if err == nil {
			// whatever is accepted carries the canonical encoding of the payload it returns
			if parts := strings.Split(input, "."); len(parts) >= 3 {
				var presented []byte
				for _, ch := range []byte(parts[1]) {
					if !strings.ContainsRune(" \t\r\n>", rune(ch)) {
						presented = append(presented, ch)
					}
				}
				if canon := basex.Base62StdEncoding.EncodeToString(body); canon != string(presented) {
					fs = append(fs, Failure{Kind: "oracle", Key: "dearmor-accepts-corrupt-body", Desc: fmt.Sprintf("accepted a body that is not the canonical encoding of the %d bytes returned: presented %.60q, canonical %.60q", len(body), presented, canon)})
				}
			}
		}
		return
	}, trivial: func(c Case) bool { return c.A["input"] == "-" }}

	evaluators["frame_check"] = evaluator{run: func(h *H, c Case) (fs []Failure) {
		hd, ft := string(unhx(c.A["hdr"])), string(unhx(c.A["ftr"]))
		var brand string
		var err error
		if pe := guard(func() error { brand, err = saltpack.CheckArmor62(hd, ft, typOf[c.A["typ"]]); return nil }); pe != nil {
			return append(fs, Failure{Kind: "oracle", Key: "frame-check-panic", Desc: clip(pe.Error(), 200)})
		}
		got := "err ErrBadFrame"
		if err == nil {
			got = "ok " + hx([]byte(brand))
		}
		m := strings.Join(h.rn.Call("check_armor62", hx([]byte(hd)), hx([]byte(ft)), c.A["typ"]), " ")
		if m != got {
			fs = append(fs, Failure{Kind: "correspondence", Key: "check-armor62", Desc: fmt.Sprintf("model %s | impl %s (%v)", m, got, err)})
		}
		if err == nil {
			// anything accepted matches the specification's grammar, mirrors brand and type, and is short
			if !specFrameRE.MatchString(hd) || !specFrameRE.MatchString(ft) || len(hd) > 512 || len(ft) > 512 || len(brand) > 128 {
				fs = append(fs, Failure{Kind: "oracle", Key: "frame-accepts-malformed", Desc: fmt.Sprintf("CheckArmor62 accepted header %q footer %q", hd, ft)})
			}
		}
		return
	}}

	// ---- classification ----
	evaluators["cls_bin"] = evaluator{run: func(h *H, c Case) (fs []Failure) {
		b := unhx(c.A["b"])
		var mt saltpack.MessageType
		var v saltpack.Version
		var err error
		if pe := guard(func() error { mt, v, err = saltpack.IsSaltpackBinarySlice(b); return nil }); pe != nil {
			return append(fs, Failure{Kind: "oracle", Key: "classify-panic", Desc: clip(pe.Error(), 200)})
		}
		got := clsStr(mt, v, err)
		m := strings.Join(h.rn.Call("binary_slice", hx(b)), " ")
		if m == "unmod" {
			h.res.Unmodelled++
		} else if m != got {
			fs = append(fs, Failure{Kind: "correspondence", Key: "binary-slice", Desc: fmt.Sprintf("model %s | impl %s", m, got)})
		}
		fs = append(fs, clsOracle(c, got, "")...)
		// the bufio form peeks and consumes nothing
		for _, sz := range []int{23, 64, 4096} {
			br := bufio.NewReaderSize(bytes.NewReader(b), sz)
			mt2, v2, err2 := saltpack.IsSaltpackBinary(br)
			rest, _ := io.ReadAll(br)
			if !bytes.Equal(rest, b) {
				fs = append(fs, Failure{Kind: "oracle", Key: "classify-consumes-input", Desc: "IsSaltpackBinary consumed input"})
			}
			if len(b) >= 23 && clsStr(mt2, v2, err2) != clsStr(saltpack.IsSaltpackBinarySlice(b[:23])) {
				fs = append(fs, Failure{Kind: "oracle", Key: "classify-stream-disagrees", Desc: "IsSaltpackBinary disagrees with the slice classifier"})
			}
		}
		return
	}, trivial: func(c Case) bool { return c.A["b"] == "-" }}

	evaluators["cls_arm"] = evaluator{run: func(h *H, c Case) (fs []Failure) {
		s := string(unhx(c.A["s"]))
		var brand string
		var mt saltpack.MessageType
		var v saltpack.Version
		var err error
		if pe := guard(func() error { brand, mt, v, err = saltpack.IsSaltpackArmoredPrefix(s); return nil }); pe != nil {
			return append(fs, Failure{Kind: "oracle", Key: "classify-panic", Desc: clip(pe.Error(), 200)})
		}
		got := hx([]byte(brand)) + " " + clsStr(mt, v, err)
		m := strings.Join(h.rn.Call("armored_prefix", hx([]byte(s))), " ")
		if strings.HasSuffix(m, "unmod") {
			h.res.Unmodelled++
		} else if m != got {
			fs = append(fs, Failure{Kind: "correspondence", Key: "armored-prefix", Desc: fmt.Sprintf("model %s | impl %s", m, got)})
		}
		fs = append(fs, clsOracle(c, clsStr(mt, v, err), brand)...)
		return
	}, trivial: func(c Case) bool { return c.A["s"] == "-" }}
}

func clsStr(mt saltpack.MessageType, v saltpack.Version, err error) string {
	switch err {
	case nil:
		return fmt.Sprintf("cls:%d:%d.%d", int(mt), v.Major, v.Minor)
	case saltpack.ErrShortSliceOrBuffer:
		return "short"
	case saltpack.ErrNotASaltpackMessage:
		return "not"
	}
	return "err:" + err.Error()
}

// clsOracle: for a prefix of a genuine message the answer is the full answer or "short"
func clsOracle(c Case, got string, brand string) (fs []Failure) {
	want, ok := c.A["full"]
	if !ok {
		return
	}
	if c.A["whole"] == "1" {
		if got != want || (c.A["brand"] != "" && brand != string(unhx(c.A["brand"]))) {
			fs = append(fs, Failure{Kind: "oracle", Key: "classify-wrong-answer", Desc: fmt.Sprintf("genuine message (%s) classified as %s brand %q, want %s", c.A["what"], got, brand, want)})
		}
	} else if got != want && got != "short" {
		fs = append(fs, Failure{Kind: "oracle", Key: "classify-prefix-unstable", Desc: fmt.Sprintf("prefix of length %s of a genuine message (%s) classified as %s; the whole message is %s", c.A["k"], c.A["what"], got, want)})
	}
	return
}

var _ = strconv.Itoa
