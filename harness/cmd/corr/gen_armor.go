package main

import (
	"strconv"
	"strings"

	"github.com/keybase/saltpack"
)

func randBrand(r *SplitMix, n int) string {
	const al = "0123456789ABCDEFGHIJKLMNOPQRSTUVWXYZabcdefghijklmnopqrstuvwxyz"
	b := make([]byte, n)
	for i := range b {
		b[i] = al[r.Intn(len(al))]
	}
	return string(b)
}

// editBrand returns the brand after one character edit (case of a letter toggled, a character
// replaced, dropped or appended); never the brand itself.
func editBrand(r *SplitMix, b string) string {
	x := []byte(b)
	for try := 0; try < 20; try++ {
		p := r.Intn(len(x))
		y := append([]byte{}, x...)
		switch r.Intn(4) {
		case 0:
			switch {
			case y[p] >= 'a' && y[p] <= 'z':
				y[p] -= 32
			case y[p] >= 'A' && y[p] <= 'Z':
				y[p] += 32
			default:
				continue
			}
		case 1:
			y[p] = "abcXYZ019"[r.Intn(9)]
		case 2:
			if len(y) == 1 {
				continue
			}
			y = append(y[:p], y[p+1:]...)
		default:
			y = append(y, "aZ5"[r.Intn(3)])
		}
		if string(y) != b {
			return string(y)
		}
	}
	return b + "X"
}

func genArmor(h *H) {
	thorough := h.tier == "thorough"
	// payload lengths covering every residue modulo the 32-byte block and the 15-character word,
	// and the 200-word line break (200 words = 3000 characters = ~2232 bytes)
	maxLen := 140
	if thorough {
		maxLen = 700
	}
	brands := []string{"", "K", "KEYBASE", randBrand(h.rng, 127), randBrand(h.rng, 128)}
	for l := 0; l <= maxLen; l++ {
		h.Run(Case{Op: "armor", A: map[string]string{"payload": hx(h.content(l)), "typ": strconv.Itoa(l % 3), "brand": hx([]byte(brands[l%len(brands)]))}})
	}
	for _, l := range []int{2200, 2231, 2232, 2233, 2264, 4464, 4465, 9000} {
		h.tag("len:line-break")
		h.Run(Case{Op: "armor", A: map[string]string{"payload": hx(h.content(l)), "typ": strconv.Itoa(l % 3), "brand": hx([]byte(brands[l%len(brands)]))}})
	}
	// all-zero and all-0xff payloads (leading zero digits kept)
	for _, l := range []int{1, 31, 32, 33, 64} {
		h.Run(Case{Op: "armor", A: map[string]string{"payload": hx(make([]byte, l)), "typ": "0", "brand": "-"}})
	}
}

// adversarial frames and texts for dearmor / CheckArmor62
func genDearmorAdversarial(h *H, n int) {
	for i := 0; i < n; i++ {
		payload := h.content(h.rng.Intn(120))
		typ := strconv.Itoa(h.rng.Intn(3))
		brand := []string{"", "KB", randBrand(h.rng, 128)}[h.rng.Intn(3)]
		good, _ := saltpack.Armor62Seal(payload, typOf[typ], brand)
		txt := good
		a := map[string]string{}
		switch h.rng.Intn(16) {
		case 0:
			txt = reflow(h.rng, good, 2)
			a["want"], a["why"] = hx(payload), "re-flowed genuine armor"
		case 1: // footer of another brand: the header's brand after one character edit
			if brand == "" || h.rng.Intn(4) == 0 {
				txt = strings.Replace(good, ". END ", ". END X", 1)
			} else {
				txt = strings.Replace(good, ". END "+brand+" ", ". END "+editBrand(h.rng, brand)+" ", 1)
			}
			a["must_reject"], a["why"] = "dearmor-accepts-bad-frame", "footer brand does not mirror the header"
		case 2: // footer of another type
			other := map[string]string{"0": "SIGNED MESSAGE", "1": "DETACHED SIGNATURE", "2": "ENCRYPTED MESSAGE"}[typ]
			p := strings.LastIndex(good, "SALTPACK ")
			txt = good[:p] + "SALTPACK " + other + ".\n"
			a["must_reject"], a["why"] = "dearmor-accepts-bad-frame", "footer type does not mirror the header"
		case 3: // brand of 129 characters
			txt, _ = saltpack.Armor62Seal(payload, typOf[typ], randBrand(h.rng, 129))
			a["must_reject"], a["why"] = "dearmor-accepts-bad-frame", "brand longer than 128 characters"
		case 4: // over-long header (whitespace padded beyond 512 inside the frame)
			txt = strings.Replace(good, "BEGIN ", "BEGIN "+strings.Repeat(" ", 520), 1)
			a["must_reject"], a["why"] = "dearmor-accepts-bad-frame", "header longer than 512 characters"
		case 5: // missing final period
			txt = strings.TrimSuffix(good, ".\n")
			a["must_reject"], a["why"] = "dearmor-accepts-truncated", "final period missing"
		case 6: // trailing garbage after the footer
			txt = good + "hello!"
			a["must_reject"], a["why"] = "dearmor-accepts-trailing-garbage", "non-armor characters after the footer"
		case 7: // foreign character in the body
			p := strings.Index(good, ". ") + 3
			if p < len(good) {
				txt = good[:p] + "!" + good[p:]
			}
			a["must_reject"], a["why"] = "dearmor-accepts-foreign-char", "foreign character in the payload"
		case 8: // lower-case marker
			txt = strings.Replace(good, "BEGIN", "begin", 1)
			a["must_reject"], a["why"] = "dearmor-accepts-bad-frame", "header marker not BEGIN"
		case 9: // truncated body (drop one character) -> usually invalid length
			p := strings.Index(good, ". ") + 2
			if good[p] != '.' {
				txt = good[:p] + good[p+1:]
				a["why"] = "one payload character removed (accepted only if the rest is still a canonical encoding)"
			}
		case 10: // the expected type differs
			other := map[string]string{"0": "1", "1": "2", "2": "0"}[typ]
			a["must_reject"], a["why"] = "dearmor-accepts-wrong-type", "type is not the one the entry point expects"
			typ = other
		case 11: // whitespace-only padding outside the frame, long
			txt = strings.Repeat(" \n", 300) + good + strings.Repeat("\n", 50)
			a["want"], a["why"] = hx(payload), "whitespace around the frame"
		case 12: // extra words in the header, or in both sentences consistently
			if h.rng.Intn(2) == 0 {
				txt = strings.Replace(good, "BEGIN ", "BEGIN A B ", 1)
			} else {
				extra := []string{"EVIL ", "X Y ", "SALTPACK "}[h.rng.Intn(3)]
				at := []string{"SALTPACK ", "ENCRYPTED ", "SIGNED ", "DETACHED ", "MESSAGE", "SIGNATURE"}[h.rng.Intn(6)]
				if !strings.Contains(good, at) {
					at = "SALTPACK "
				}
				if brand == "" && extra != "X Y " {
					// with no brand, ONE extra word before the type words just reads as a brand
					// ("BEGIN SALTPACK SALTPACK DETACHED SIGNATURE" has the brand SALTPACK)
					extra = "EVIL TWO "
				}
				txt = strings.Replace(good, at, extra+at, 2)
			}
			a["must_reject"], a["why"] = "dearmor-accepts-bad-frame", "too many words in the frame"
		case 13: // no chk
			typ = "none"
		default: // random byte-level mutation
			b := []byte(good)
			if len(b) > 0 {
				b[h.rng.Intn(len(b))] = []byte{'.', ' ', '!', 'z', '0', '>', '\n', 0x80}[h.rng.Intn(8)]
			}
			txt = string(b)
		}
		for k, v := range map[string]string{"chk": typ, "input": hx([]byte(txt))} {
			a[k] = v
		}
		h.Run(Case{Op: "dearmor", A: a})
	}
}

// every string over a small alphabet up to a bounded length, through Armor62Open,
// the validating open and CheckArmor62
func genSmallAlphabet(h *H, maxLen int) {
	al := []byte{'.', ' ', '0', 'z', '!', '>'}
	var rec func(p []byte)
	rec = func(p []byte) {
		h.Run(Case{Op: "dearmor", A: map[string]string{"chk": "none", "input": hx(p)}})
		if len(p) <= maxLen-2 {
			h.Run(Case{Op: "frame_check", A: map[string]string{"hdr": hx(p), "ftr": hx(p), "typ": "0"}})
		}
		if len(p) == maxLen {
			return
		}
		for _, ch := range al {
			rec(append(append([]byte{}, p...), ch))
		}
	}
	rec(nil)
	// frame words: every combination of a few candidate words in 3..6 positions
	wordsH := []string{"BEGIN", "END", "SALTPACK", "ENCRYPTED", "MESSAGE", "KB", "SIGNED", ""}
	seps := []string{" ", "  ", "\n", ">", "\t "}
	for i := 0; i < 4000; i++ {
		n := 3 + h.rng.Intn(4)
		var sb, sf strings.Builder
		for k := 0; k < n; k++ {
			w := wordsH[h.rng.Intn(len(wordsH))]
			if k == 0 && h.rng.Intn(3) != 0 {
				w = "BEGIN"
			}
			sb.WriteString(w)
			if w == "BEGIN" {
				sf.WriteString("END")
			} else {
				sf.WriteString(w)
			}
			if k < n-1 {
				s := seps[h.rng.Intn(len(seps))]
				sb.WriteString(s)
				sf.WriteString(s)
			}
		}
		if h.rng.Intn(8) == 0 {
			sf.WriteString("X")
		}
		if i%3 == 1 {
			// a genuine pair of sentences whose footer brand is the header's after one character edit
			typ := []string{"ENCRYPTED MESSAGE", "SIGNED MESSAGE", "DETACHED SIGNATURE"}[h.rng.Intn(3)]
			b := randBrand(h.rng, 1+h.rng.Intn(9))
			sb.Reset()
			sf.Reset()
			sb.WriteString("BEGIN " + b + " SALTPACK " + typ)
			sf.WriteString("END " + editBrand(h.rng, b) + " SALTPACK " + typ)
		}
		if i%3 == 0 {
			// near-valid frames: a valid word list with words inserted, deleted or duplicated, the same
			// way in header and footer
			typ := [][]string{{"ENCRYPTED", "MESSAGE"}, {"SIGNED", "MESSAGE"}, {"DETACHED", "SIGNATURE"}}[h.rng.Intn(3)]
			ws := []string{"BEGIN"}
			if h.rng.Intn(2) == 0 {
				ws = append(ws, "KB")
			}
			ws = append(append(ws, "SALTPACK"), typ...)
			for e := h.rng.Intn(3); e > 0; e-- {
				p := 1 + h.rng.Intn(len(ws))
				switch h.rng.Intn(3) {
				case 0:
					ws = append(ws[:p], append([]string{[]string{"EVIL", "KB", "SALTPACK", "MESSAGE", "0"}[h.rng.Intn(5)]}, ws[p:]...)...)
				case 1:
					if p < len(ws) {
						ws = append(ws[:p], ws[p+1:]...)
					}
				default:
					if p < len(ws) {
						ws = append(ws[:p], append([]string{ws[p]}, ws[p:]...)...)
					}
				}
			}
			sb.Reset()
			sf.Reset()
			sb.WriteString(strings.Join(ws, " "))
			ws[0] = "END"
			sf.WriteString(strings.Join(ws, " "))
		}
		h.tag("frame-words")
		h.Run(Case{Op: "frame_check", A: map[string]string{"hdr": hx([]byte(sb.String())), "ftr": hx([]byte(sf.String())), "typ": strconv.Itoa(h.rng.Intn(4))}})
	}
}

func init() {
	campaigns["C11"] = campaign{
		rule: "cases: (1) Armor62Seal for every payload length 0..140 (0..700 thorough: every residue modulo the 32-byte block and the 15-character word), lengths around the 200-word line break, all three armorable types, brands of length 0,1,7,127,128: output equals the model's, has the specified shape (frame grammar of the spec as a regexp, words <=15 base-62 characters, <=200 per line), equals the streaming encoder under random Write splits, dearmors to the identical payload/brand/header/footer also after two kinds of random re-flowing (runs of space/tab/CR/LF/'>' between words and between payload characters), and is refused by the checker of another type; (2) adversarial texts (mismatching footer brand/type, 129-character brand, >512-character header, missing period, trailing garbage, foreign character, removed payload character, wrong expected type, extra words, byte mutations): model = implementation and the named oracle; (3) EXHAUSTIVE: every string over {'.',' ','0','z','!','>'} up to length 6 (quick) / 7 (thorough) through Armor62Open and, up to length-2, CheckArmor62, plus 4000 random frame-word combinations, model vs implementation (this also ties the hand-written matchers to Go's regexp); (4) genuine messages of all four modes through every armored entry point: genuine text accepted, each single frame damage refused.",
		gen: func(h *H) {
			genArmor(h)
			n := 300
			ml := 6
			if h.tier == "thorough" {
				n, ml = 6000, 7
			}
			genDearmorAdversarial(h, n)
			genSmallAlphabet(h, ml)
			genFrameEdgeJunk(h)
			// genuine messages of all four modes: every armored entry point accepts the genuine text and
			// refuses each frame variant
			genArmoredFrames(h, map[string]bool{"enc": true, "sc": true, "att": true, "det": true}, 2)
			h.res.ExhNote = "every string over {'.',' ','0','z','!','>'} up to length " + strconv.Itoa(ml) + " through Armor62Open (and CheckArmor62 up to length-2)"
		},
	}
}

// bytes that other notions of "white space" would skip (VT, FF, NUL, NEL, NBSP, U+2028, U+3000, a lone 0xa0, DEL)
// placed at every edge of the two frame sentences and inside them: only space, tab, CR, LF and '>' are filler;
// whatever the implementation accepts must be what the model accepts (the model refuses all of these)
func genFrameEdgeJunk(h *H) {
	junk := [][]byte{{0x0b}, {0x0c}, {0x00}, {0x1f}, {0x7f}, {0x85}, {0xa0}, {0xc2, 0x85}, {0xc2, 0xa0}, {0xe2, 0x80, 0xa8}, {0xe3, 0x80, 0x80}, {0xef, 0xbb, 0xbf}}
	for _, typ := range []string{"0", "1", "2"} {
		for _, brand := range []string{"", "KB"} {
			good, _ := saltpack.Armor62Seal(h.rng.Bytes(40), typOf[typ], brand)
			d1 := strings.Index(good, ".")
			d2 := d1 + 1 + strings.Index(good[d1+1:], ".")
			d3 := strings.LastIndex(good, ".")
			for _, j := range junk {
				for pos, at := range []int{0, 5, d1, d1 + 1, d2 + 1, d2 + 2, d3, len(good)} {
					if pos == 3 {
						continue // inside the payload: covered by the foreign-character cases
					}
					txt := good[:at] + string(j) + good[at:]
					h.tag("frame-edge-junk")
					for _, chk := range []string{typ, "none"} {
						h.Run(Case{Op: "dearmor", A: map[string]string{"chk": chk, "input": hx([]byte(txt))}})
					}
				}
			}
		}
	}
}
