package main

import (
	"fmt"
	"io"
	"runtime"
	"strconv"

	"github.com/keybase/saltpack"
)

type zeroReader struct{ left int }

func (z *zeroReader) Read(p []byte) (int, error) {
	if z.left == 0 {
		return 0, io.EOF
	}
	n := len(p)
	if n > z.left {
		n = z.left
	}
	for i := 0; i < n; i++ {
		p[i] = byte(i)
	}
	z.left -= n
	return n, nil
}

func init() {
	// Stream a long message through NewEncryptStream -> pipe -> NewDecryptStream and
	// sample the live heap: it must stay bounded by a few chunks, whatever the length.
	evaluators["mem_stream"] = evaluator{run: func(h *H, c Case) (fs []Failure) {
		mibs, _ := strconv.Atoi(c.A["mib"])
		total := mibs << 20
		rsk := boxSecretFromBytes(make([]byte, 32))
		ring := &hRing{allSenders: true}
		ring.keys = append(ring.keys, rsk)
		pr, pw := io.Pipe()
		errc := make(chan error, 1)
		go func() {
			w, err := saltpack.NewEncryptStream(saltpack.Version2(), pw, nil, []saltpack.BoxPublicKey{boxPubFromBytes(rsk.GetPublicKey().ToKID(), false)})
			if err != nil {
				pw.CloseWithError(err)
				errc <- err
				return
			}
			_, err = io.CopyBuffer(w, &zeroReader{left: total}, make([]byte, 64<<10))
			if err == nil {
				err = w.Close()
			}
			pw.CloseWithError(err)
			errc <- err
		}()
		_, st, err := saltpack.NewDecryptStream(saltpack.CheckKnownMajorVersion, pr, ring)
		if err != nil {
			return append(fs, Failure{Kind: "oracle", Key: "mem-stream-fails", Desc: err.Error()})
		}
		runtime.GC()
		var ms runtime.MemStats
		runtime.ReadMemStats(&ms)
		base := ms.HeapAlloc
		var peak uint64
		buf := make([]byte, 32<<10)
		got := 0
		for {
			n, err := st.Read(buf)
			got += n
			if got%(4<<20) < n {
				runtime.GC()
				runtime.ReadMemStats(&ms)
				if ms.HeapAlloc > base && ms.HeapAlloc-base > peak {
					peak = ms.HeapAlloc - base
				}
			}
			if err == io.EOF {
				break
			}
			if err != nil {
				return append(fs, Failure{Kind: "oracle", Key: "mem-stream-fails", Desc: err.Error()})
			}
		}
		<-errc
		h.tag(fmt.Sprintf("mem-peak-live-heap-MiB:%d", peak>>20))
		if got != total {
			fs = append(fs, Failure{Kind: "oracle", Key: "mem-stream-wrong-length", Desc: fmt.Sprintf("streamed %d of %d bytes", got, total)})
		}
		// a handful of 1 MiB chunks (plaintext buffer, ciphertext, encoder/decoder copies, pipe) — independent of the total
		if peak > 20<<20 {
			fs = append(fs, Failure{Kind: "oracle", Key: "unbounded-buffering", Desc: fmt.Sprintf("live heap grew by %d MiB while streaming a %d MiB message", peak>>20, mibs)})
		}
		return
	}}
}
