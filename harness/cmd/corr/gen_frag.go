package main

import (
	"bytes"
	"fmt"
	"strconv"
	"strings"

	"github.com/keybase/saltpack"
)

func sizesStr(r *SplitMix, n int) string {
	var s []string
	pool := []int{1, 2, 3, 7, 31, 32, 33, 43, 4096}
	for i := 0; i < n; i++ {
		s = append(s, strconv.Itoa(pool[r.Intn(len(pool))]))
	}
	return strings.Join(s, ",")
}

func genFrag(h *H) {
	thorough := h.tier == "thorough"
	// ---- (1) state machines call by call ----
	n := 400
	if thorough {
		n = 8000
	}
	texts := []string{"", ".", "a", "a.b", "ab.cd.ef.gh", "....", "a..b", ".a.", "hello world. body text here. footer. trailing", "no punctuation at all"}
	for i := 0; i < n; i++ {
		txt := []byte(texts[h.rng.Intn(len(texts))])
		if i%3 == 0 {
			txt = make([]byte, h.rng.Intn(60))
			for k := range txt {
				txt[k] = []byte{'.', 'a', 'b', ' ', '.', 'z'}[h.rng.Intn(6)]
			}
		}
		plan := fragPlans[h.rng.Intn(len(fragPlans))]
		segs, _ := fragment(h.rng, txt, plan)
		final := "EOF"
		if h.rng.Intn(4) == 0 {
			final = "IO"
		}
		if h.rng.Intn(6) == 0 && len(segs) > 0 {
			// an I/O error delivered together with some data (then sticky)
			k := h.rng.Intn(len(segs))
			segs[k].err = errInjected
		}
		if h.rng.Intn(8) == 0 {
			// a whitespace-only slice carrying the error
			segs = append(segs, schedSeg{data: []byte(" \n"), err: errOfName([]string{"EOF", "IO"}[h.rng.Intn(2)])})
		}
		h.tag("pr-plan:" + plan)
		h.Run(Case{Op: "pr_sched", A: map[string]string{"segs": segsStr(segs), "final": final, "sizes": sizesStr(h.rng, len(txt)+8), "lim": strconv.Itoa(1 + h.rng.Intn(12))}})
	}
	// the streaming base-X decoder, call by call: genuine encodings (with skip characters for the
	// skipping variants), truncations, extra/foreign characters, under every fragmentation plan, caller
	// buffers from 1 byte to several blocks, sources ending with EOF or an error (alone or with data)
	nb := n
	for i := 0; i < nb; i++ {
		e := encs[h.rng.Intn(len(encs))]
		data := h.content(h.rng.Intn(3*e.ibl + 2))
		if i%5 == 0 {
			data = h.rng.Bytes(e.ibl * (1 + h.rng.Intn(3)))
		}
		if i%5 == 1 {
			// blocks whose decoded value has leading zero bytes, each after a block without any (the
			// decoder left-pads such blocks; its buffers are reused from block to block)
			data = nil
			for b := 0; b < 2+h.rng.Intn(3); b++ {
				blk := h.rng.Bytes(e.ibl)
				if b%2 == 1 {
					z := 1 + h.rng.Intn(e.ibl)
					copy(blk, make([]byte, z))
				} else {
					for j := range blk {
						blk[j] |= 1
					}
				}
				data = append(data, blk...)
			}
		}
		txt := []byte(e.enc.EncodeToString(data))
		switch h.rng.Intn(8) {
		case 0:
			if len(txt) > 0 {
				txt = txt[:h.rng.Intn(len(txt))]
			}
		case 1:
			txt = append(txt, e.alphabet[len(e.alphabet)-1], e.alphabet[len(e.alphabet)-1])
		case 2:
			if len(txt) > 0 {
				p := h.rng.Intn(len(txt))
				txt = append(txt[:p:p], append([]byte{'!'}, txt[p:]...)...)
			}
		}
		if e.skip != "" && len(txt) > 0 {
			for k := h.rng.Intn(4); k > 0; k-- {
				p := h.rng.Intn(len(txt) + 1)
				ins := [][]byte{{' '}, {'\n'}, {'\r', '\n'}, {' ', ' ', ' '}, {'>', ' '}}[h.rng.Intn(5)]
				txt = append(txt[:p:p], append(append([]byte{}, ins...), txt[p:]...)...)
			}
		}
		plan := fragPlans[h.rng.Intn(len(fragPlans))]
		segs, _ := fragment(h.rng, txt, plan)
		final := "EOF"
		if h.rng.Intn(5) == 0 {
			final = "IO"
		}
		if h.rng.Intn(8) == 0 && len(segs) > 0 {
			segs[h.rng.Intn(len(segs))].err = errOfName([]string{"EOF", "IO"}[h.rng.Intn(2)])
		}
		var sz []string
		for k := 0; k < 12+len(txt); k++ {
			sz = append(sz, strconv.Itoa([]int{1, 2, 5, e.ibl - 1, e.ibl, e.ibl + 1, 2 * e.ibl, 64, 100, 4096}[h.rng.Intn(10)]))
		}
		h.tag("bxd-plan:" + plan)
		h.Run(Case{Op: "bxd_sched", A: map[string]string{"enc": e.name, "segs": segsStr(segs), "final": final, "sizes": strings.Join(sz, ",")}})
	}
	// the composed armored read stack, call by call: genuine armor of every type (plain, re-flowed,
	// padded), mutated texts, truncations, trailing text (also with a further period), under every
	// fragmentation plan and caller buffers from one byte to several blocks
	for i := 0; i < nb; i++ {
		typ := strconv.Itoa(h.rng.Intn(3))
		payload := h.content(h.rng.Intn(150))
		txt, _ := saltpack.Armor62Seal(payload, typOf[typ], []string{"", "KB", "Brand7"}[h.rng.Intn(3)])
		b := []byte(txt)
		chk := typ
		switch h.rng.Intn(10) {
		case 0:
			b = []byte(reflow(h.rng, txt, 2))
		case 1:
			b = b[:h.rng.Intn(len(b)+1)]
		case 2:
			b[h.rng.Intn(len(b))] = []byte{'.', ' ', '!', 'z', '\n', 0x80}[h.rng.Intn(6)]
		case 3:
			b = append(b, []byte([]string{" \n ", "x", "more. text", "  >\n", "."}[h.rng.Intn(5)])...)
		case 4:
			chk = "none"
		case 5:
			chk = strconv.Itoa((h.rng.Intn(2) + 1 + int(typ[0]-'0')) % 3) // a checker of another type
		case 6:
			b = append([]byte(strings.Repeat(" \n", h.rng.Intn(40))), b...)
		}
		plan := fragPlans[h.rng.Intn(len(fragPlans))]
		segs, _ := fragment(h.rng, b, plan)
		final := "EOF"
		if h.rng.Intn(6) == 0 {
			final = "IO"
		}
		if h.rng.Intn(8) == 0 && len(segs) > 0 {
			segs[h.rng.Intn(len(segs))].err = errOfName([]string{"EOF", "IO"}[h.rng.Intn(2)])
		}
		var sz []string
		for k := 0; k < 14+len(payload); k++ {
			sz = append(sz, strconv.Itoa([]int{1, 2, 5, 31, 32, 33, 64, 100, 4096}[h.rng.Intn(9)]))
		}
		h.tag("ad-plan:" + plan)
		h.Run(Case{Op: "ad_sched", A: map[string]string{"chk": chk, "segs": segsStr(segs), "final": final, "sizes": strings.Join(sz, ",")}})
	}
	// sentences around the 8192-byte limit with aligned and unaligned fragmentations
	for _, l := range []int{8190, 8191, 8192, 8193, 8200, 9000, 12000, 12300} {
		txt := append(bytes.Repeat([]byte{' '}, l), []byte(".rest")...)
		for _, first := range []int{4096, 4000, 1, 5000} {
			var segs []schedSeg
			d := txt
			k := first
			for len(d) > 0 {
				if k > len(d) {
					k = len(d)
				}
				segs = append(segs, schedSeg{data: d[:k]})
				d = d[k:]
				k = 4096
			}
			h.tag("pr-overflow-boundary")
			h.Run(Case{Op: "pr_sched", A: map[string]string{"segs": segsStr(segs), "final": "EOF", "sizes": "4096,4096,4096,4096", "lim": "8192"}})
		}
	}
	for i := 0; i < n/2; i++ {
		var chunks []schedSeg
		k := h.rng.Intn(5)
		for j := 0; j < k; j++ {
			chunks = append(chunks, schedSeg{data: h.rng.Bytes(1 + h.rng.Intn(9))})
		}
		last := schedSeg{data: h.rng.Bytes(h.rng.Intn(4)), err: errOfName([]string{"EOF", "IO"}[h.rng.Intn(2)])}
		chunks = append(chunks, last)
		h.Run(Case{Op: "cr_sched", A: map[string]string{"chunks": segsStr(chunks), "sizes": sizesStr(h.rng, 40)}})
	}
	// ---- (2) whole decoding stacks under many fragmentations ----
	m := 6
	if thorough {
		m = 80
	}
	for i := 0; i < m; i++ {
		for _, p := range h.producers() {
			seed := hx(h.rng.Bytes(8))
			stackBin := map[string]string{"enc": "open", "sc": "sc-open", "att": "verify", "det": ""}[p.name]
			a := map[string]string{"keys": keysOf(p), "signers": signersOf(p), "ring": signersOf(p), "seed": seed}
			withA := func(extra map[string]string) map[string]string {
				o := map[string]string{}
				for k, v := range a {
					o[k] = v
				}
				for k, v := range extra {
					o[k] = v
				}
				return o
			}
			tc := "0"
			if i == 0 {
				tc = "1"
			}
			if stackBin != "" {
				h.tag("frag:" + stackBin)
				h.Run(Case{Op: "frag", A: withA(map[string]string{"stack": stackBin, "input": hx(p.wire), "want": hx(p.msg), "twocut": tc})})
				mut, kind := mutateWire(h.rng, p.wire, p.wire)
				h.tag("frag-mut:" + kind)
				h.Run(Case{Op: "frag", A: withA(map[string]string{"stack": stackBin, "input": hx(mut), "twocut": tc})})
			}
			at := map[string]saltpack.MessageType{"enc": saltpack.MessageTypeEncryption, "sc": saltpack.MessageTypeEncryption,
				"att": saltpack.MessageTypeAttachedSignature, "det": saltpack.MessageTypeDetachedSignature}[p.name]
			chk := map[string]string{"enc": "0", "sc": "0", "att": "1", "det": "2"}[p.name]
			txt, _ := saltpack.Armor62Seal(p.wire, at, []string{"", "KB"}[h.rng.Intn(2)])
			if h.rng.Intn(2) == 0 {
				txt = reflow(h.rng, txt, 2)
			}
			h.tag("frag:dearmor")
			h.Run(Case{Op: "frag", A: withA(map[string]string{"stack": "dearmor", "chk": chk, "input": hx([]byte(txt)), "want": hx(p.wire), "twocut": tc})})
			if stackBin != "" {
				h.tag("frag:" + stackBin + "-armored")
				h.Run(Case{Op: "frag", A: withA(map[string]string{"stack": stackBin + "-armored", "input": hx([]byte(txt)), "want": hx(p.msg)})})
			}
			if p.name == "enc" || p.name == "sc" {
				h.tag("frag:classify-decrypt")
				h.Run(Case{Op: "frag", A: withA(map[string]string{"stack": "classify-decrypt", "input": hx([]byte(txt)), "want": hx(p.msg), "twocut": tc})})
				h.Run(Case{Op: "frag", A: withA(map[string]string{"stack": "classify-decrypt", "input": hx(p.wire), "want": hx(p.msg), "twocut": tc})})
			}
			// mutated armor text
			b := []byte(txt)
			b[h.rng.Intn(len(b))] = []byte{'.', ' ', '!', 'z', '\n'}[h.rng.Intn(5)]
			h.Run(Case{Op: "frag", A: withA(map[string]string{"stack": "dearmor", "chk": chk, "input": hx(b)})})
			// whitespace-padded header around the 8192-byte read limit
			if i < 2 {
				for _, pad := range []int{8100, 8170, 8200, 9000} {
					padded := strings.Repeat(" ", pad) + txt
					h.tag("frag:dearmor-padded")
					h.Run(Case{Op: "frag", A: withA(map[string]string{"stack": "dearmor", "chk": chk, "input": hx([]byte(padded))})})
				}
			}
		}
		// plain basex streams
		for _, e := range []string{"b62", "b58"} {
			data := h.content(h.rng.Intn(200))
			s := []byte(encByName(e).enc.EncodeToString(data))
			h.Run(Case{Op: "frag", A: map[string]string{"stack": "basex", "enc": e, "input": hx(s), "want": hx(data), "seed": hx(h.rng.Bytes(8)), "twocut": "0"}})
			if len(s) > 0 {
				s[h.rng.Intn(len(s))] = []byte{' ', '!', 'z', '\n'}[h.rng.Intn(4)]
			}
			h.Run(Case{Op: "frag", A: map[string]string{"stack": "basex", "enc": e, "input": hx(s), "seed": hx(h.rng.Bytes(8)), "twocut": "0"}})
		}
	}
	// ---- write side: every streaming sender, the message handed over in pieces through one reused scratch
	// buffer (as io.Copy does): the bytes emitted equal the model's one-shot output and open to the message ----
	nw := 6
	if thorough {
		nw = 200
	}
	for i := 0; i < nw; i++ {
		msg := h.content([]int{0, 1, 100, 5000, 70000}[i%5] + h.rng.Intn(40))
		pieces := splitPieces(h.rng, msg)
		if len(pieces) < 2 && len(msg) > 1 {
			pieces = [][]byte{msg[:len(msg)/2], msg[len(msg)/2:]}
		}
		h.tag("write-side:enc")
		h.Run(sealCase(h.randSealSpec(2, h.rng.Intn(4)), pieces, sealRng(h.rng, 2), false))
		h.tag("write-side:sc")
		h.Run(scSealCase(h.randScSpec(1, 1), pieces, sealRng(h.rng, 2), false))
		for _, mode := range []string{"att", "det"} {
			h.tag("write-side:" + mode)
			h.Run(signCase(mode, []string{"1.0", "2.0"}[i%2], h.randSigKey(), pieces, h.rng.Bytes(16), false))
		}
	}
	// ---- (3) bounded memory: a long message through a streaming encoder and decoder ----
	mb := 24
	if thorough {
		mb = 192
	}
	h.Run(Case{Op: "mem_stream", A: map[string]string{"mib": strconv.Itoa(mb)}})
	h.res.ExhNote = fmt.Sprintf("two-cut fragmentations are enumerated exhaustively (all i<=j, stride 1 up to 120 bytes) for the first round of messages; memory soak of %d MiB", mb)
}

func init() {
	campaigns["C13"] = campaign{
		rule: "cases: (1) punctuatedReader and chunkReader (exported under -tags verif) driven call by call with planned underlying read results (whole, one-byte, random, 4096-aligned, data delivered together with EOF or with an I/O error incl. whitespace-only slices, sentences around the 8192-byte limit) and caller buffer sizes from {1,2,3,7,31,32,33,43,4096}: every Read result equals the Coq state machine's, the pieces are the input cut at the periods, ReadUntilPunctuation depends on the bytes only; (2) whole decoding stacks (binary and armored: decrypt, verify, signcryption open, dearmor, basex decoder, classify-and-decrypt) on genuine, mutated, re-flowed and whitespace-padded inputs under 16 fragmentations each plus exhaustive two-cut splits: same success/failure, same bytes and identities on success, prefix-related released bytes on failure, and agreement with the model's denotation; (3) write-side: all four streaming senders fed in pieces through one reused scratch buffer (bytes equal the model's one-shot output, the message opens), and the armor encoder; (4) a long message streamed through encrypt and decrypt streams with the live heap sampled. Distinct by (op,args) hash.",
		gen:  genFrag,
	}
}
