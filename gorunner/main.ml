(* main.ml — driver around the extracted evaluator of the Go embedding (gomodel.ml: g_eval).
   Protocol as runner/main.ml:  request  "goeval <function> <arg> ..."  reply "= <outcome>".
   Arguments:  i<decimal>  integer;  t / f  booleans;  b<hex> bytes (b- empty);  v<maj>.<min> a Version struct;
   n nil.   Outcome:  ret <val> ...  |  panic  |  stuck:<why>
   Values printed:  i<decimal>  t  f  b<hex>  n  e:<ErrName>  v<maj>.<min>  s{...} (other structs)  l[...] lists.
   Cryptographic primitives are answered by the harness ("? <prim> <hex> ..."), as for the model runner. *)
module BZ = Z
type ostring = string
open Gomodel

let byte_of_int (i : int) : byte = Obj.magic i
let int_of_byte (b : byte) : int = Obj.magic b
let rec z_of_pos = function
  | XH -> BZ.one
  | XO p -> BZ.shift_left (z_of_pos p) 1
  | XI p -> BZ.succ (BZ.shift_left (z_of_pos p) 1)
let rec pos_of_z z =
  if BZ.equal z BZ.one then XH
  else if BZ.is_even z then XO (pos_of_z (BZ.shift_right z 1))
  else XI (pos_of_z (BZ.shift_right z 1))
let coqz_of_z z = if BZ.sign z = 0 then Z0 else if BZ.sign z > 0 then Zpos (pos_of_z z) else Zneg (pos_of_z (BZ.neg z))
let z_of_coqz = function Z0 -> BZ.zero | Zpos p -> z_of_pos p | Zneg p -> BZ.neg (z_of_pos p)
let int_of_n = function N0 -> 0 | Npos p -> BZ.to_int (z_of_pos p)

let hexdig = "0123456789abcdef"
let bytes_to_hex (l : byte list) : ostring =
  match l with
  | [] -> "-"
  | _ ->
    let b = Buffer.create 64 in
    List.iter (fun x -> let i = int_of_byte x in
                Buffer.add_char b hexdig.[i lsr 4]; Buffer.add_char b hexdig.[i land 15]) l;
    Buffer.contents b
let hv c = match c with
  | '0'..'9' -> Char.code c - 48 | 'a'..'f' -> Char.code c - 87 | 'A'..'F' -> Char.code c - 55
  | _ -> failwith "bad hex"
let hex_to_bytes (s : ostring) : byte list =
  if s = "-" then [] else begin
    let n = String.length s / 2 in
    let rec go i acc = if i < 0 then acc
      else go (i - 1) (byte_of_int ((hv s.[2*i]) lsl 4 lor (hv s.[2*i+1])) :: acc) in
    go (n - 1) []
  end
let self_check () =
  for i = 0 to 255 do
    if int_of_n (g_byte_to_N (byte_of_int i)) <> i then failwith "byte representation self-check failed"
  done

(* OCaml string <-> the extracted Coq string *)
let ascii_of_char ch =
  let c = Char.code ch in
  let b i = (c lsr i) land 1 = 1 in
  Ascii (b 0, b 1, b 2, b 3, b 4, b 5, b 6, b 7)
let char_of_ascii (Ascii (b0, b1, b2, b3, b4, b5, b6, b7)) =
  let v b i = if b then 1 lsl i else 0 in
  Char.chr (v b0 0 + v b1 1 + v b2 2 + v b3 3 + v b4 4 + v b5 5 + v b6 6 + v b7 7)
let coq_string (s : ostring) : Gomodel.string =
  let rec go i acc = if i < 0 then acc else go (i - 1) (String (ascii_of_char s.[i], acc)) in
  go (String.length s - 1) EmptyString
let rec ocaml_string (s : Gomodel.string) : ostring =
  match s with EmptyString -> "" | String (a, t) -> String.make 1 (char_of_ascii a) ^ ocaml_string t

let oracle (prim : ostring) (args : byte list list) : ostring =
  print_string ("? " ^ prim);
  List.iter (fun a -> print_char ' '; print_string (bytes_to_hex a)) args;
  print_newline ();
  input_line stdin
let h2b = hex_to_bytes
let cr : crypto = {
  sha512 = (fun x -> h2b (oracle "sha512" [x]));
  hmac512 = (fun k m -> h2b (oracle "hmac512" [k; m]));
  sb_seal = (fun k n m -> h2b (oracle "sb_seal" [k; n; m]));
  sb_open = (fun k n b -> match oracle "sb_open" [k; n; b] with "!" -> None | h -> Some (h2b h));
  dh_pub = (fun s -> h2b (oracle "dh_pub" [s]));
  dh_shared = (fun s p -> h2b (oracle "dh_shared" [s; p]));
  ed_pub = (fun s -> h2b (oracle "ed_pub" [s]));
  ed_sign = (fun s m -> h2b (oracle "ed_sign" [s; m]));
  ed_verify = (fun p m sg -> oracle "ed_verify" [p; m; sg] = "1");
}

let version_val maj min =
  VStruct [(coq_string "Major", VInt (coqz_of_z (BZ.of_string maj))); (coq_string "Minor", VInt (coqz_of_z (BZ.of_string min)))]
let parse_arg (s : ostring) : gval =
  let rest = String.sub s 1 (String.length s - 1) in
  match s.[0] with
  | 'i' -> VInt (coqz_of_z (BZ.of_string rest))
  | 't' -> VBool true
  | 'f' -> VBool false
  | 'b' -> VBytes (hex_to_bytes rest)
  | 'n' -> VNil
  | 'v' -> (match String.split_on_char '.' rest with [a; b] -> version_val a b | _ -> failwith "version")
  | _ -> failwith ("bad argument " ^ s)

let rec show (v : gval) : ostring =
  match v with
  | VInt z -> "i" ^ BZ.to_string (z_of_coqz z)
  | VBool true -> "t" | VBool false -> "f"
  | VBytes b -> "b" ^ bytes_to_hex b
  | VNil -> "n"
  | VErr (name, _) -> "e:" ^ ocaml_string name
  | VStruct [(a, VInt ma); (b, VInt mi)] when ocaml_string a = "Major" && ocaml_string b = "Minor" ->
    "v" ^ BZ.to_string (z_of_coqz ma) ^ "." ^ BZ.to_string (z_of_coqz mi)
  | VStruct fs -> "s{" ^ String.concat "," (List.map (fun (k, x) -> ocaml_string k ^ "=" ^ show x) fs) ^ "}"
  | VList l -> "l[" ^ String.concat "," (List.map show l) ^ "]"

let () =
  self_check ();
  try
    while true do
      let line = input_line stdin in
      match String.split_on_char ' ' (String.trim line) with
      | [] | [""] -> ()
      | ["ping"] -> print_string "= pong"; print_newline ()
      | "goeval" :: name :: args ->
        (try
           let r = g_eval cr (coq_string name) (List.map parse_arg args) in
           let out = match r with
             | ORet vs -> String.concat " " ("ret" :: List.map show vs)
             | OPanic -> "panic"
             | OStuck w -> "stuck:" ^ String.concat "_" (String.split_on_char ' ' (ocaml_string w)) in
           print_string ("= " ^ out); print_newline ()
         with Failure m -> print_string ("! " ^ m); print_newline ()
            | Stack_overflow -> print_string "! stack overflow"; print_newline ())
      | op :: _ -> print_string ("! unknown op " ^ op); print_newline ()
    done
  with End_of_file -> ()
