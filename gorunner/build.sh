#!/bin/sh
# builds gorunner from the extracted gomodel.ml (already written here by coqc) and main.ml
set -e
cd "$(dirname "$0")"
ocamlfind ocamlopt -O3 -w -a -package unix,zarith -linkpkg gomodel.mli gomodel.ml main.ml -o gorunner 2>&1
